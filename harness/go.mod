module verif/harness

go 1.23

require (
	github.com/nlnwa/whatwg-url v0.0.0
	golang.org/x/text v0.21.0
)

require (
	github.com/bits-and-blooms/bitset v1.20.0 // indirect
	golang.org/x/net v0.34.0 // indirect
)

replace github.com/nlnwa/whatwg-url => /repo
