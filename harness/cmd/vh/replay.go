package main

import (
	"bufio"
	"crypto/sha1"
	"encoding/json"
	"flag"
	"fmt"
	"io"
	"os"
	"strings"
	"sync/atomic"
	"time"

	"github.com/nlnwa/whatwg-url/url"

	"verif/harness/internal/interp"
	"verif/harness/internal/proj"
)

// A behaviour line emitted by TLC (PrintT(ToJson(..)) => a JSON string holding JSON).
type Line struct {
	T     string        `json:"t"` // "p" parse family | "h" history
	In    proj.Text     `json:"in"`
	Bs    []proj.Text   `json:"bs"`
	Fail  bool          `json:"fail"`
	G     *proj.Proj    `json:"g"`
	Asked bool          `json:"asked"` // the spec needed the IDNA oracle (result not predicted)
	Steps []interp.Step `json:"steps"`
	Nobj  int           `json:"nobj"`
	// class lines (t = "c"): all spellings of one host must give the same result (C09)
	Base    proj.Text     `json:"base"`
	Frames  [][]proj.Text `json:"frames"`
	Hosts   []proj.Text   `json:"hosts"`
	Trivial bool          `json:"trivial"`
	Exp     []proj.Text   `json:"exp"`
	// canonicalizer lines: t = "u" (one grammar URL in In) and t = "cls" (spellings of one URL)
	Sp  []proj.Text `json:"sp"`
	Std bool        `json:"std"`
	// scan lines (t = "scan", C17): every concatenation of up to N tokens after every prefix is canonicalized twice by the driver; only the
	// inputs on which the fixed-point law fails, and every Sample-th other one, become events for TLC
	Pre    []proj.Text `json:"pre"`
	Tok    []proj.Text `json:"tok"`
	N      int         `json:"n"`
	Sample int         `json:"sample"`
}

type Mismatch struct {
	Family string          `json:"family"`
	Entry  string          `json:"entry"`
	Step   int             `json:"step"`
	Handle int             `json:"handle"`
	Keys   []string        `json:"keys"`
	What   string          `json:"what"`
	Exp    interface{}     `json:"exp"`
	Got    interface{}     `json:"got"`
	Line   json.RawMessage `json:"line"`
}

type Summary struct {
	Family      string   `json:"family"`
	Lines       int      `json:"lines"`
	Steps       int      `json:"steps"`
	Executions  int      `json:"executions"`
	Skipped     int      `json:"skipped_idna"`
	DistinctOut int      `json:"distinct_outcomes"`
	OkLines     int      `json:"ok_lines"`
	FailLines   int      `json:"fail_lines"`
	Mismatches  int      `json:"mismatches"`
	Panics      int      `json:"panics"`
	Samples     []string `json:"samples"`
	WallS       float64  `json:"wall_s"`
}

var curLine atomic.Value

func keysFor(name string) map[string]bool {
	if name == "all" || name == "" {
		return nil
	}
	m := map[string]bool{}
	for _, k := range strings.Split(name, ",") {
		switch k {
		case "std":
			for x := range proj.KeysStd {
				m[x] = true
			}
		case "derived":
			for x := range proj.KeysDerived {
				m[x] = true
			}
		case "shape": // everything C04 speaks about: the standard getters plus Href(true), Scheme, Query, Fragment, OpaquePath, IsSpecialScheme
			for x := range proj.KeysStd {
				m[x] = true
			}
			for _, x := range []string{"hrefnf", "scheme", "query", "fragment", "opaque", "special"} {
				m[x] = true
			}
		default:
			if !proj.KnownKey(k) {
				fmt.Fprintln(os.Stderr, "unknown projection key", k)
				os.Exit(2)
			}
			m[k] = true
		}
	}
	return m
}

func cmdReplay(args []string) int {
	fs := flag.NewFlagSet("replay", flag.ExitOnError)
	family := fs.String("family", "", "family name (for reports)")
	in := fs.String("in", "-", "behaviour file (TLC stdout) or - for stdin")
	out := fs.String("out", "", "mismatch ndjson output")
	sum := fs.String("summary", "", "summary json output")
	keys := fs.String("keys", "all", "projection keys to compare: all|std|derived|k1,k2")
	maxMis := fs.Int("max", 300, "max mismatches written")
	entries := fs.String("entries", "Parse,ParserParseRef,UrlParse", "entry points for parse lines with a base")
	spmodes := fs.String("spmodes", "late,early", "SearchParams handle modes for histories")
	params := fs.Bool("params", true, "compare parameter lists")
	logf := fs.String("log", "", "file receiving TLC's own output lines")
	parserName := fs.String("parser", "default", "parser for histories (option list, see options.go)")
	reparse := fs.Bool("reparse", false, "parse lines: also re-parse the observed serialization and demand identity (C03)")
	fs.Parse(args)

	var lw *bufio.Writer
	if *logf != "" {
		f, err := os.Create(*logf)
		if err != nil {
			fmt.Fprintln(os.Stderr, err)
			return 2
		}
		defer f.Close()
		lw = bufio.NewWriter(f)
		defer lw.Flush()
	}

	var r io.Reader = os.Stdin
	if *in != "-" {
		f, err := os.Open(*in)
		if err != nil {
			fmt.Fprintln(os.Stderr, err)
			return 2
		}
		defer f.Close()
		r = f
	}
	var mw *bufio.Writer
	if *out != "" {
		f, err := os.Create(*out)
		if err != nil {
			fmt.Fprintln(os.Stderr, err)
			return 2
		}
		defer f.Close()
		mw = bufio.NewWriter(f)
		defer mw.Flush()
	}
	kset := keysFor(*keys)
	histP = parserFor(*parserName)
	start := time.Now()
	S := Summary{Family: *family}
	distinct := map[[20]byte]struct{}{}

	// watchdog: a single behaviour line must finish within 20 s of real time
	curLine.Store("")
	var tick int64
	go func() {
		last := int64(-1)
		stuck := 0
		for {
			time.Sleep(2 * time.Second)
			t := atomic.LoadInt64(&tick)
			if t == last && curLine.Load().(string) != "" {
				stuck++
				if stuck >= 10 {
					fmt.Printf("HANG family=%s line=%s\n", *family, curLine.Load().(string))
					os.Exit(3)
				}
			} else {
				stuck = 0
			}
			last = t
		}
	}()

	report := func(m Mismatch) {
		S.Mismatches++
		if mw != nil && S.Mismatches <= *maxMis {
			b, _ := json.Marshal(m)
			mw.Write(b)
			mw.WriteByte('\n')
		}
	}

	entryList := strings.Split(*entries, ",")
	spList := strings.Split(*spmodes, ",")
	sc := bufio.NewScanner(r)
	sc.Buffer(make([]byte, 1<<24), 1<<24)
	for sc.Scan() {
		raw := sc.Bytes()
		if len(raw) == 0 || raw[0] != '"' {
			if lw != nil {
				lw.Write(raw)
				lw.WriteByte('\n')
			}
			continue
		}
		var inner string
		if err := json.Unmarshal(raw, &inner); err != nil {
			if lw != nil {
				lw.Write(raw)
				lw.WriteByte('\n')
			}
			continue
		}
		var ln Line
		if err := json.Unmarshal([]byte(inner), &ln); err != nil {
			fmt.Fprintf(os.Stderr, "bad behaviour line: %v: %s\n", err, inner[:min(len(inner), 300)])
			return 2
		}
		S.Lines++
		atomic.AddInt64(&tick, 1)
		curLine.Store(inner[:min(len(inner), 2000)])
		switch ln.T {
		case "p":
			S.Steps++
			if ln.Asked {
				S.Skipped++
				continue
			}
			h := sha1.New()
			if ln.Fail {
				h.Write([]byte("F"))
				S.FailLines++
			} else {
				b, _ := json.Marshal(ln.G.Href)
				h.Write(b)
				S.OkLines++
			}
			var k [20]byte
			copy(k[:], h.Sum(nil))
			distinct[k] = struct{}{}
			if len(S.Samples) < 5 && S.Lines%997 == 1 {
				S.Samples = append(S.Samples, sampleP(&ln))
			}
			for _, e := range entryList {
				if len(ln.Bs) == 0 && e != "Parse" {
					continue
				}
				if len(ln.Bs) > 0 && e == "Parse" {
					e = "ParseRef"
				}
				S.Executions++
				fail, got, errc := runParse(e, &ln)
				if strings.HasPrefix(errc, "panic") || errc == "nilnil" {
					S.Panics++
					report(Mismatch{Family: *family, Entry: e, What: errc, Exp: ln.Fail, Got: errc, Line: json.RawMessage(inner)})
					continue
				}
				if fail != ln.Fail {
					report(Mismatch{Family: *family, Entry: e, What: "failure", Keys: []string{"fail"}, Exp: ln.Fail, Got: fail, Line: json.RawMessage(inner)})
					continue
				}
				if !fail {
					if d := proj.Diff(*ln.G, got, kset); len(d) > 0 {
						report(Mismatch{Family: *family, Entry: e, What: "getters", Keys: d, Exp: ln.G, Got: got, Line: json.RawMessage(inner)})
					} else if *reparse {
						rt, errc := interp.DoReparse(defaultP, &got)
						if errc != "" || rt.Fail || !rt.Same {
							report(Mismatch{Family: *family, Entry: e, What: "roundtrip", Keys: []string{"rt"}, Exp: got, Got: rt, Line: json.RawMessage(inner)})
						}
					}
				}
			}
		case "h":
			h := sha1.New()
			if n := len(ln.Steps); n > 0 {
				b, _ := json.Marshal(ln.Steps[n-1].Objs)
				h.Write(b)
			}
			var k [20]byte
			copy(k[:], h.Sum(nil))
			distinct[k] = struct{}{}
			if len(S.Samples) < 5 && S.Lines%997 == 1 {
				S.Samples = append(S.Samples, sampleH(&ln))
			}
			S.Steps += len(ln.Steps)
			for _, mode := range spList {
				S.Executions++
				runHistory(*family, mode, &ln, kset, *params, json.RawMessage(inner), report, &S)
			}
		case "c":
			S.Steps += len(ln.Hosts) * len(ln.Frames)
			if len(S.Samples) < 5 {
				S.Samples = append(S.Samples, fmt.Sprintf("class of %d spellings of host %s, e.g. %s", len(ln.Hosts), ln.Base.String(), ln.Hosts[len(ln.Hosts)/2].String()))
			}
			for _, fr := range ln.Frames {
				runClass(*family, &ln, fr, json.RawMessage(inner), report, &S, distinct)
			}
		default:
			fmt.Fprintf(os.Stderr, "unknown line type %q\n", ln.T)
			return 2
		}
		curLine.Store("")
	}
	if err := sc.Err(); err != nil {
		fmt.Fprintln(os.Stderr, "read error:", err)
		return 2
	}
	S.DistinctOut = len(distinct)
	S.WallS = time.Since(start).Seconds()
	if *sum != "" {
		b, _ := json.MarshalIndent(S, "", " ")
		os.WriteFile(*sum, b, 0o644)
	}
	fmt.Printf("REPLAY family=%s lines=%d executions=%d mismatches=%d panics=%d skipped_idna=%d\n", *family, S.Lines, S.Executions, S.Mismatches, S.Panics, S.Skipped)
	return 0
}

var defaultP = url.NewParser()
var histP url.Parser = defaultP

func runParse(entry string, ln *Line) (fail bool, got proj.Proj, errc string) {
	defer func() {
		if r := recover(); r != nil {
			fail, errc = true, fmt.Sprintf("panic: %v", r)
		}
	}()
	in := ln.In.ToGo()
	var u *url.Url
	var err error
	switch entry {
	case "Parse":
		u, err = url.Parse(in)
	case "ParseRef":
		u, err = url.ParseRef(ln.Bs[0].ToGo(), in)
	case "ParserParseRef":
		u, err = defaultP.ParseRef(ln.Bs[0].ToGo(), in)
	case "UrlParse":
		var b *url.Url
		b, err = url.Parse(ln.Bs[0].ToGo())
		if err == nil {
			u, err = b.Parse(in)
		}
	}
	if err != nil {
		return true, got, "error"
	}
	if u == nil {
		return true, got, "nilnil"
	}
	return false, proj.Project(u), ""
}

// runClass parses frame[0]+spelling+frame[1] for every spelling of one host and demands: all succeed with the same
// hostname or all fail; the hostname is ASCII-only, lower case and free of forbidden domain code points; a file URL's
// localhost becomes the empty host; and for a trivial (pure ASCII, no xn--) base the result is the specification's.
func runClass(family string, ln *Line, fr []proj.Text, raw json.RawMessage, report func(Mismatch), S *Summary, distinct map[[20]byte]struct{}) {
	pre, suf := fr[0].ToGo(), fr[1].ToGo()
	isFile := strings.HasPrefix(pre, "file:")
	first := ""
	firstFail := false
	for i, h := range ln.Hosts {
		S.Executions++
		in := pre + h.ToGo() + suf
		fail, got, errc := func() (fail bool, host string, errc string) {
			defer func() {
				if r := recover(); r != nil {
					fail, errc = true, fmt.Sprintf("panic: %v", r)
				}
			}()
			u, err := url.Parse(in)
			if err != nil {
				return true, "", ""
			}
			if u == nil {
				return true, "", "nilnil"
			}
			return false, u.Hostname(), ""
		}()
		if errc != "" {
			S.Panics++
			report(Mismatch{Family: family, Entry: pre, What: errc, Got: in, Line: raw})
			return
		}
		if i == 0 {
			first, firstFail = got, fail
			k := sha1.Sum([]byte(fmt.Sprintf("%v|%s|%s", fail, got, pre)))
			distinct[k] = struct{}{}
			if !fail {
				for _, c := range got {
					if c >= 0x80 || (c >= 'A' && c <= 'Z') || c <= 0x20 || strings.ContainsRune("#/:<>?@[\\]^|%\x7f", c) {
						if !(strings.HasPrefix(got, "[") && (c == ':' || c == '[' || c == ']')) {
							report(Mismatch{Family: family, Entry: pre, What: "domain-not-normalised", Keys: []string{"hostname"}, Exp: "ASCII, lower case, no forbidden domain code point", Got: got, Line: raw})
							return
						}
					}
				}
			}
			if ln.Trivial && !isFile {
				expFail := len(ln.Exp) == 0
				if expFail != fail || (!fail && ln.Exp[0].ToGo() != got) {
					report(Mismatch{Family: family, Entry: pre, What: "trivial-domain", Keys: []string{"hostname"}, Exp: ln.Exp, Got: got, Line: raw})
					return
				}
			}
			if isFile && ln.Trivial && len(ln.Exp) == 1 && ln.Exp[0].ToGo() == "localhost" && (fail || got != "") {
				report(Mismatch{Family: family, Entry: pre, What: "file-localhost", Keys: []string{"hostname"}, Exp: "", Got: got, Line: raw})
				return
			}
			continue
		}
		if fail != firstFail || got != first {
			report(Mismatch{Family: family, Entry: pre, What: "spelling-dependent", Keys: []string{"hostname"},
				Exp: map[string]interface{}{"spelling": ln.Hosts[0], "fail": firstFail, "hostname": first},
				Got: map[string]interface{}{"spelling": h, "fail": fail, "hostname": got}, Line: raw})
			return
		}
	}
}

func runHistory(family, mode string, ln *Line, kset map[string]bool, params bool, raw json.RawMessage, report func(Mismatch), S *Summary) {
	nobj := ln.Nobj
	if nobj == 0 {
		nobj = 3
	}
	m := interp.New(histP, nobj)
	m.Early = mode == "early"
	m.Params = params
	for i := range ln.Steps {
		st := &ln.Steps[i]
		fail, ret, errc := m.Do(st)
		if strings.HasPrefix(errc, "panic") || errc == "nilnil" {
			S.Panics++
			report(Mismatch{Family: family, Entry: mode, Step: i + 1, What: errc, Line: raw})
			return
		}
		if fail != st.Fail {
			report(Mismatch{Family: family, Entry: mode, Step: i + 1, What: "failure", Keys: []string{"fail"}, Exp: st.Fail, Got: fail, Line: raw})
			return
		}
		if st.Op == "read" || st.Op == "spdet" {
			if !textsEq(st.Ret, ret) {
				report(Mismatch{Family: family, Entry: mode, Step: i + 1, Handle: st.H, What: "read:" + st.N, Keys: []string{"ret"}, Exp: st.Ret, Got: ret, Line: raw})
				return
			}
		}
		obs := m.Observe(false)
		for h := 1; h <= nobj && h <= len(st.Objs); h++ {
			e, o := st.Objs[h-1], obs[h-1]
			if e.Live != o.Live {
				report(Mismatch{Family: family, Entry: mode, Step: i + 1, Handle: h, What: "liveness", Exp: e.Live, Got: o.Live, Line: raw})
				return
			}
			if o.Live && o.Alias {
				report(Mismatch{Family: family, Entry: mode, Step: i + 1, Handle: h, What: "alias: the handle's SearchParams object belongs to another URL", Line: raw})
				return
			}
			if !e.Live || e.G == nil {
				continue
			}
			if d := proj.Diff(*e.G, *o.G, kset); len(d) > 0 {
				report(Mismatch{Family: family, Entry: mode, Step: i + 1, Handle: h, What: "getters", Keys: d, Exp: e.G, Got: o.G, Line: raw})
				return
			}
			if params && e.P != nil && o.P != nil && !pairsEq(e.P, o.P) {
				report(Mismatch{Family: family, Entry: mode, Step: i + 1, Handle: h, What: "params", Keys: []string{"params"}, Exp: e.P, Got: o.P, Line: raw})
				return
			}
			if e.Law != nil && o.P != nil {
				// the law on the real code: serialize the real list (it is the URL's query), parse it with the real parser
				ok, skip := realListRoundTrip(m.U[h], o.P)
				if !skip && ok != e.Law.Faithful {
					report(Mismatch{Family: family, Entry: mode, Step: i + 1, Handle: h, What: "codec-law-prediction", Keys: []string{"law"}, Exp: e.Law, Got: ok, Line: raw})
					return
				}
				if !skip && !ok {
					report(Mismatch{Family: family, Entry: mode, Step: i + 1, Handle: h, What: "codec-law", Keys: []string{"law"}, Exp: e.Law, Got: ok, Line: raw})
					// not fatal for the rest of the history
				}
			}
			if e.RT != nil {
				rt, errc := interp.DoReparse(defaultP, o.G)
				bad := errc != "" || rt.Fail != e.RT.Fail || rt.Same != e.RT.Same
				if !bad && !rt.Fail && !rt.Same && len(proj.Diff(*e.RT.G, *rt.G, nil)) > 0 {
					bad = true
				}
				if bad {
					report(Mismatch{Family: family, Entry: mode, Step: i + 1, Handle: h, What: "roundtrip", Keys: []string{"rt"}, Exp: e.RT, Got: rt, Line: raw})
					return
				}
			}
		}
	}
}

// realListRoundTrip serializes u (its query is the list's serialization), parses it again with the real code and
// compares the new URL's parameter list with the stored one.
func realListRoundTrip(u *url.Url, stored [][]proj.Text) (ok, skip bool) {
	defer func() {
		if r := recover(); r != nil {
			ok, skip = false, false
		}
	}()
	// serialize the real list and parse the result as the query of a URL of the same scheme class
	prefix := "x://h/?"
	if u.IsSpecialScheme() {
		prefix = "http://h/?"
	}
	u2, err := defaultP.Parse(prefix + u.SearchParams().String())
	if err != nil || u2 == nil {
		return false, false
	}
	sp2 := u2.SearchParams()
	got := [][]proj.Text{}
	for _, p := range sp2.VerifParams() {
		got = append(got, []proj.Text{proj.FromGo(p[0]), proj.FromGo(p[1])})
	}
	return pairsEq(stored, got), false
}

// textsEq compares texts; a raw (invalid UTF-8) byte observed in a stored Go string counts as U+FFFD (C11).
func textsEq(a, b []proj.Text) bool {
	if len(a) != len(b) {
		return false
	}
	for i := range a {
		if !norm(a[i]).Eq(norm(b[i])) {
			return false
		}
	}
	return true
}

func norm(t proj.Text) proj.Text {
	for _, c := range t {
		if c >= proj.RawBase {
			o := make(proj.Text, len(t))
			for i, c := range t {
				if c >= proj.RawBase {
					c = 0xFFFD
				}
				o[i] = c
			}
			return o
		}
	}
	return t
}

func pairsEq(a, b [][]proj.Text) bool {
	if len(a) != len(b) {
		return false
	}
	for i := range a {
		if !textsEq(a[i], b[i]) {
			return false
		}
	}
	return true
}

func sampleP(ln *Line) string {
	b := ""
	if len(ln.Bs) > 0 {
		b = " base=" + ln.Bs[0].String()
	}
	if ln.Fail {
		return fmt.Sprintf("parse %s%s -> failure", ln.In.String(), b)
	}
	return fmt.Sprintf("parse %s%s -> %s", ln.In.String(), b, ln.G.Href.String())
}

func sampleH(ln *Line) string {
	var sb strings.Builder
	for i, s := range ln.Steps {
		if i > 0 {
			sb.WriteString("; ")
		}
		fmt.Fprintf(&sb, "%s", s.Op)
		if s.N != "" {
			fmt.Fprintf(&sb, ".%s", s.N)
		}
		fmt.Fprintf(&sb, "[h%d](%s", s.H, s.A.String())
		if len(s.B) > 0 {
			fmt.Fprintf(&sb, ",%s", s.B.String())
		}
		sb.WriteString(")")
	}
	if n := len(ln.Steps); n > 0 {
		for h, o := range ln.Steps[n-1].Objs {
			if o.Live && o.G != nil {
				fmt.Fprintf(&sb, " => h%d=%s", h+1, o.G.Href.String())
			}
		}
	}
	return sb.String()
}
