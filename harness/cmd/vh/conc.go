package main

// `vh conc` is the C14 driver. Built with -race by the check.
//
//  1. write-set events (deterministic, no scheduling luck): around every read-only public call it snapshots every
//     shared object (base URL record incl. the lazily created parameter list, parser option fingerprint, package
//     tables) and logs the set of locations that changed. TLC validates them against spec/Conc.tla (WritesOf).
//  2. concurrent runs: N goroutines x {Parse, ParseRef, (*Url).Parse on a shared base, all getters on a shared URL,
//     the four profiles} with the same and with different inputs; results are compared with the sequential run;
//     the race detector reports unordered conflicting accesses (stderr, exit code 66).

import (
	"bufio"
	"encoding/json"
	"flag"
	"fmt"
	"math/rand"
	"os"
	"reflect"
	"strings"
	"sync"

	"github.com/nlnwa/whatwg-url/canonicalizer"
	"github.com/nlnwa/whatwg-url/url"

	"verif/harness/internal/proj"
)

type wsEvent struct {
	K      string    `json:"k"`
	Call   string    `json:"call"`
	In     proj.Text `json:"in"`
	Base   proj.Text `json:"base"`
	Writes []string  `json:"writes"`
}

type sharedSnap struct {
	base   proj.Record
	opts   string
	tables string
}

func snapShared(b *url.Url, p url.Parser) sharedSnap {
	s := sharedSnap{tables: url.VerifTables(), opts: url.VerifOptions(p)}
	if b != nil {
		s.base = proj.Snapshot(b)
	}
	return s
}

func diffShared(a, b sharedSnap) []string {
	w := []string{}
	ra, rb := a.base, b.base
	spA, spB := []interface{}{ra.HasSP, ra.OwnSP, ra.Params}, []interface{}{rb.HasSP, rb.OwnSP, rb.Params}
	if !reflect.DeepEqual(spA, spB) {
		w = append(w, "B.searchParams")
	}
	ra.HasSP, ra.OwnSP, ra.Params, rb.HasSP, rb.OwnSP, rb.Params = false, false, nil, false, false, nil
	if !reflect.DeepEqual(ra, rb) {
		w = append(w, "B.components")
	}
	if a.opts != b.opts {
		w = append(w, "P.opts")
	}
	if a.tables != b.tables {
		w = append(w, "T.tables")
	}
	return w
}

var concBases = []string{"http://example.com:0/dir/file?q=1", "http://[::1]:0/", "ws://h:81/p", "http://example.com/a/b?x=1#f", "http://u:p@h:8/a/b?q#f", "file:///C:/d/e", "x://h/a/b?k=v", "m:o?q", "https://1.2.3.4/"}
var concRefs = []string{"../c", "?n=1", "#g", "//o/p", "", "d/./e", "x:y", "/\\z", "http:rel", " \tq "}
var concInputs = []string{"http://h/a?b#c", "HTTP://EXAMPLE.com:80/%7e/../x", "file:///C|/x", "x:opaque path ", "http://[::1]:81/", "http://0x7f.1/", "ws://h/?a=1&b=2",
	"http://u@h/", "nonsense", "http://h/\xff", "http://a\u00e9b.com/", "http://h//a//b",
	// hosts that are not valid UTF-8 (raw bytes, escaped bytes): only the lax profiles accept them
	"http://\x80\x81.com/", "http://\xff\xfe/p", "http://\u00e9%80.com/", "http://%ff%fe.org/", "http://a b/", "http://a%00b/"}

type namedParser struct {
	name string
	p    url.Parser
}

func concParsers() []namedParser {
	return []namedParser{
		{"default", url.NewParser()},
		{"report", url.NewParser(url.WithReportValidationErrors())},
		{"WhatWg", canonicalizer.WhatWg},
		{"WhatWgSortQuery", canonicalizer.WhatWgSortQuery},
		{"GoogleSafeBrowsing", canonicalizer.GoogleSafeBrowsing},
		{"Semantic", canonicalizer.Semantic},
	}
}

func allGetters(u *url.Url) string {
	g := proj.Project(u)
	b, _ := json.Marshal(g)
	return string(b) + fmt.Sprint(len(u.ValidationErrors()))
}

func outcome(u *url.Url, err error) string {
	if err != nil {
		return "ERR:" + err.Error()
	}
	if u == nil {
		return "NILNIL"
	}
	return allGetters(u)
}

func safe(f func() string) (s string) {
	defer func() {
		if r := recover(); r != nil {
			s = fmt.Sprintf("PANIC:%v", r)
		}
	}()
	return f()
}

func cmdConc(args []string) int {
	fs := flag.NewFlagSet("conc", flag.ExitOnError)
	seed := fs.Int64("seed", 1, "")
	out := fs.String("out", "ws.ndjson", "write-set events")
	gor := fs.Int("goroutines", 8, "")
	rounds := fs.Int("rounds", 30, "")
	extra := fs.String("inputs", "", "optional file with extra inputs (TLC p-lines)")
	fs.Parse(args)
	rnd := rand.New(rand.NewSource(*seed))
	inputs := append([]string{}, concInputs...)
	refs := append([]string{}, concRefs...)
	if *extra != "" {
		if f, err := os.Open(*extra); err == nil {
			sc := bufio.NewScanner(f)
			sc.Buffer(make([]byte, 1<<22), 1<<22)
			for sc.Scan() {
				raw := sc.Bytes()
				if len(raw) == 0 || raw[0] != '"' {
					continue
				}
				var inner string
				var ln Line
				if json.Unmarshal(raw, &inner) == nil && json.Unmarshal([]byte(inner), &ln) == nil && ln.T == "p" {
					inputs = append(inputs, ln.In.ToGo())
					refs = append(refs, ln.In.ToGo())
				}
			}
			f.Close()
		}
	}
	f, err := os.Create(*out)
	if err != nil {
		fmt.Fprintln(os.Stderr, err)
		return 2
	}
	defer f.Close()
	w := bufio.NewWriter(f)
	defer w.Flush()
	emit := func(e wsEvent) {
		b, _ := json.Marshal(e)
		w.Write(b)
		w.WriteByte('\n')
	}
	parsers := concParsers()
	nws, ncalls, bad := 0, 0, 0

	// ---- 1. write-set events ----
	for _, np := range parsers {
		for _, bs := range concBases {
			base, err := np.p.Parse(bs)
			if err != nil || base == nil {
				continue
			}
			for _, ref := range refs {
				before := snapShared(base, np.p)
				safe(func() string { return outcome(base.Parse(ref)) })
				emit(wsEvent{K: "ws", Call: "resolve", In: proj.FromGo(ref), Base: proj.FromGo(bs), Writes: diffShared(before, snapShared(base, np.p))})
				nws++
			}
			before := snapShared(base, np.p)
			safe(func() string { return allGetters(base) })
			emit(wsEvent{K: "ws", Call: "getter", In: proj.Text{}, Base: proj.FromGo(bs), Writes: diffShared(before, snapShared(base, np.p))})
			nws++
		}
		for _, in := range inputs {
			before := snapShared(nil, np.p)
			safe(func() string { return outcome(np.p.Parse(in)) })
			call := "parse"
			if np.name != "default" && np.name != "report" {
				call = "canon"
			}
			emit(wsEvent{K: "ws", Call: call, In: proj.FromGo(in), Base: proj.Text{}, Writes: diffShared(before, snapShared(nil, np.p))})
			nws++
			before = snapShared(nil, np.p)
			safe(func() string { return outcome(np.p.ParseRef(concBases[nws%len(concBases)], in)) })
			emit(wsEvent{K: "ws", Call: call, In: proj.FromGo(in), Base: proj.FromGo(concBases[nws%len(concBases)]), Writes: diffShared(before, snapShared(nil, np.p))})
			nws++
		}
	}

	// ---- 2. concurrent runs, results compared with the sequential run ----
	tables0 := url.VerifTables()
	// package-level tables belong to the package: neither another package's initialisation (the canonicalizer builds its profiles at
	// init time) nor the construction of a parser with its own special-scheme table or percent-encode sets may write them
	const stdSpecial = "file=;ftp=21;http=80;https=443;ws=80;wss=443;"
	if !strings.HasSuffix(tables0, stdSpecial) || strings.Count(tables0, "=") != 6 {
		fmt.Println("CONC-TABLES-CHANGED the default special-scheme table is not the standard's before any call: " + tables0[strings.LastIndex(tables0, ":")+1:])
		bad++
	}
	_ = url.NewParser(url.WithSpecialSchemes(map[string]string{"zzz": "1", "http": "81", "file": ""}),
		url.WithPathPercentEncodeSet(url.PathPercentEncodeSet.Set('!')), url.WithQueryPercentEncodeSet(url.QueryPercentEncodeSet.Clear('"')),
		url.WithSpecialQueryPercentEncodeSet(url.SpecialQueryPercentEncodeSet.Set('!')), url.WithFragmentPathPercentEncodeSet(url.FragmentPercentEncodeSet.Set('!')),
		url.WithSpecialFragmentPathPercentEncodeSet(url.FragmentPercentEncodeSet.Clear('`')))
	_ = canonicalizer.New(url.WithSpecialSchemes(map[string]string{"yyy": "2"}), canonicalizer.WithDefaultScheme("http"))
	if url.VerifTables() != tables0 {
		fmt.Println("CONC-TABLES-CHANGED constructing a parser with its own tables wrote a package-level table")
		bad++
	}
	for round := 0; round < *rounds; round++ {
		np := parsers[round%len(parsers)]
		bs := concBases[rnd.Intn(len(concBases))]
		base, err := np.p.Parse(bs)
		if err != nil || base == nil {
			continue
		}
		sameInput := round%2 == 0
		type job struct{ kind, arg string }
		jobs := make([][]job, *gor)
		for g := range jobs {
			for k := 0; k < 40; k++ {
				var j job
				switch (g + k) % 4 {
				case 0:
					j = job{"resolve", refs[rnd.Intn(len(refs))]}
				case 1:
					j = job{"getter", ""}
				case 2:
					j = job{"parse", inputs[rnd.Intn(len(inputs))]}
				case 3:
					j = job{"parseref", inputs[rnd.Intn(len(inputs))]}
				}
				if sameInput && g > 0 {
					j = jobs[0][k]
				}
				jobs[g] = append(jobs[g], j)
			}
		}
		base2, _ := np.p.Parse(bs) // private copy for the sequential reference: the shared base is first touched concurrently
		run := func(j job, base *url.Url) string {
			return safe(func() string {
				switch j.kind {
				case "resolve":
					return outcome(base.Parse(j.arg))
				case "getter":
					return allGetters(base)
				case "parse":
					return outcome(np.p.Parse(j.arg))
				default:
					return outcome(np.p.ParseRef(bs, j.arg))
				}
			})
		}
		// sequential reference
		want := make([][]string, *gor)
		for g := range jobs {
			for _, j := range jobs[g] {
				want[g] = append(want[g], run(j, base2))
			}
		}
		got := make([][]string, *gor)
		var wg sync.WaitGroup
		start := make(chan struct{})
		for g := range jobs {
			wg.Add(1)
			go func(g int) {
				defer wg.Done()
				<-start
				for _, j := range jobs[g] {
					got[g] = append(got[g], run(j, base))
				}
			}(g)
		}
		close(start)
		wg.Wait()
		for g := range jobs {
			for k := range jobs[g] {
				ncalls++
				if got[g][k] != want[g][k] {
					bad++
					if bad <= 5 {
						fmt.Printf("CONC-MISMATCH parser=%s base=%q call=%s arg=%q\n  alone:      %s\n  concurrent: %s\n", np.name, bs, jobs[g][k].kind, jobs[g][k].arg, want[g][k], got[g][k])
					}
				}
			}
		}
	}
	if url.VerifTables() != tables0 {
		fmt.Println("CONC-TABLES-CHANGED")
		bad++
	}
	fmt.Printf("CONC ws_events=%d concurrent_calls=%d mismatches=%d\n", nws, ncalls, bad)
	return 0
}

func init() { commands["conc"] = cmdConc }
