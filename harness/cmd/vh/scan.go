package main

// Novelty scan (T-mode front end): the driver explores a large token-generated space of (input, base[, setter, value]) on the REAL
// code - cheap, about a million calls per second - and keeps one representative per *behaviour class*: a pair
// (coarse shape of the call, coarse shape of what the code returned). Only the representatives become recorded events, which TLC
// then validates exactly against the specification like every other recorded event (Trace_Api.tla). A change of the code that
// misbehaves on a rare input shape produces a pair the correct code never produces for that shape, so its input is kept and judged;
// the verdict itself never comes from the driver.

import (
	"fmt"
	"math/rand"
	"os"
	"sort"
	"strings"

	werrors "github.com/nlnwa/whatwg-url/errors"
	"github.com/nlnwa/whatwg-url/url"

	"verif/harness/internal/proj"
)

type scanCand struct {
	In     proj.Text
	Base   proj.Text // nil: no base
	Setter string    // "" or a setter name
	Val    proj.Text
}

var scanSchemes = []string{"http:", "https:", "file:", "ws:", "wss:", "ftp:", "x:", "HTTP:", "File:", "a+b.c-d:", "1x:", "about:", "blob:", "javascript:"}
var scanTokens = []string{
	"/", "/", "//", "///", "\\", "\\\\", "/\\", ":", ":", "::", "@", "@", "?", "#", ".", ".", "..", "...", "%2e", "%2E", "%2e%2E", ".%2e", "%", "%4", "%41", "%2f", "%2F", "%5c", "%00", "%25", "%3A", "%40", "%23", "%3f", "%20", "%c3%a9", "%ff", "%80%80", "%e2%82",
	"h", "a", "b", "Z", "AbC", "example.com", "EXAMPLE.com.", "localhost", "LOCALHOST", "localhost.", "%6cocalhost", "xn--", "xn--a", "xn--bcher-kva", "a-b", "-a", "a-", "a_b", "a--b", "www", "com",
	"0", "1", "7", "8", "9", "00", "01", "08", "010", "0x", "0X1", "0x1f", "0xg", "255", "256", "0377", "0400", "65535", "65536", "16777215", "16777216", "4294967295", "4294967296", "99999999999999999999", "0xffffffff", "0x100000000",
	"1.2.3.4", "1.2.3", "1.2", "1.2.3.4.5", "1.2.3.4.", "1.2.3.256", "0x7f.1", "1..2", ".1", "1.", "192.168.0.1", "127.1", "a.1", "1.a", "1.2.3.4a", "09.1.1.1",
	"[", "]", "[::1]", "[::]", "[1::]", "[::1.2.3.4]", "[1:2:3:4:5:6:7:8]", "[1:2:3:4:5:6:7::]", "[1:0:0:2::3]", "[0:0:1:0:0:1:0:0]", "[::ffff:1.2.3.4]", "[2001:DB8::A]", "[::1", "::1]", "[[::1]]", "[1:2:3:4:5:6:1.2.3.4]", "[::1.2.3]", "[::01.2.3.4]", "[1::2::3]", "[g::]", "[::12345]", "[1:2:3:4:5:6:7:8:9]", "[::%31]", "[v1.a]", "ffff", "FFFF", "1:", ":1", "0:0",
	"80", "443", "21", "8080", "0080", "000", "+1", "-1", " 8", "8 ",
	"C:", "C|", "c|", "C:/", "C|/", "|", "/C:", "/C|/", "CC:", "C::", "C|\\", "1:",
	" ", "  ", "\t", "\n", "\r", "\x00", "\x1f", "\x7f", "\u00a0", "\u00e9", "\u20ac", "\U0001F600", "\ufffd", "\ufffe", "\uff0e", "\u3002", "\uff21", "\u00ad", "\u200d", "\u00df", "\uff05", "\uff0f", "\uff1a", "\uff20", "\u2260", "\u0661",
	"<", ">", "\"", "`", "{", "}", "^", "'", "~", "!", "$", ";", ",", "*", "(", ")", "&", "=", "+", "a=1", "&&", "a=b&c=d", "==", "+%2B",
	"\x80", "\xff", "\xc0\x80",
	"u", "u:p", ":p", "u:", "u@v", "u:p:q",
	"path", "a/b", "a/b/c", "a/../b", "./", "../", "/./", "/../", "/.//", "/..//", ";x", "a;b", "a b",
	"q", "f", "?q", "#f", "?#", "#?", "##", "??", "http://", "file://", "x://", "//h", "/p", "http:/", "http:h", "file:/", "file:c",
}
var scanBases = []string{"http://u:p@h:8/a/b?q#f", "https://h/", "file:///C:/d/e?q#f", "file://fh/x/y", "file:///", "x://h/a/b?q#f", "x:/a/b", "x:o?q#f", "about:blank", "x://:p@h?q", "ws://h:81", "x:///a", "http://h/a/b/", "x:/.//p", "file:///D|/a"}
var scanStarts = []string{"http://u:p@h:8/a/b?q#f", "https://h/", "file:///C:/d", "file://fh/x", "x://h/a?q#f", "x:/a/b", "x:o  ?q#f", "x://:p@h:8?q", "ws://1.2.3.4:81/", "http://[::1]/", "x:///a", "x://h", "file:///", "m:o", "http://h/?a=1&b=2#"}
var scanSetters = []string{"protocol", "username", "password", "host", "hostname", "port", "pathname", "search", "hash"}

// host-focused vocabularies (C07 / C08 / C09): the scanned input is frame + host built from the vocabulary + tail
var scanHostVocab = map[string][]string{
	"v4": {"0", "1", "7", "8", "9", "00", "01", "08", "010", "0x", "0X", "0x1", "0xf", "0XFF", "0xg", "x", "a", "f", "255", "256", "0377", "0400", "65535", "65536", "16777215", "16777216",
		"4294967295", "4294967296", "0xffffffff", "0x100000000", "037777777777", "040000000000", "99999999999999999999", "0x7fffffffffffffff", "0xffffffffffffffff", "0x10000000000000000",
		".", ".", ".", "..", "-", "+", "%30", "%31", "%2e", "%2E", "%78", "\uff10", "\uff11", "\uff0e", "\u3002", "\u0661", " ", "_", "e", "1e3"},
	"v6": {"[", "]", "[", "]", ":", ":", "::", "::", "0", "1", "f", "F", "00", "0000", "00000", "ffff", "FFFF", "abcd", "12345", "g", "1:", ":1", "0:", ":0", "0:0", "1:2:3:4", "1:2:3:4:5:6", "1:2:3:4:5:6:7", "1:2:3:4:5:6:7:8",
		"0:0:0:0", "0:0:0:0:0:0:0", ".", "1.2.3.4", "1.2.3", "1.2.3.4.5", "255", "256", "01", "1.2.3.256", "18446744073709551617", "9223372036854775808", "99999999999999999999", "4294967297", "1.2.3.18446744073709551616", "1.2.3.04", "1.2.3.4.", ".1", "%31", "%5B", "%5D", "%3A", "/", "@", " ", "x", "v1", "ffff:", "::ffff:", "64:ff9b::", "fe80::", "%25eth0"},
	"dom": {"a", "b", "A", "Z", "ab", "example", "com", "COM", ".", ".", "..", "-", "--", "_", "xn--", "Xn--", "XN--", "xn--a", "xn--bcher-kva", "xn--pokxncvks", "xn--nxasmq6b", "localhost", "LOCALHOST", "LocalHost", "localhost.", "%6c", "%4C", "%41", "%61", "%2e", "%2E", "%00", "%20", "%25", "%2f", "%3a", "%40", "%5b", "%7f", "%80", "%c3%a9", "%e2%82%ac", "%ff",
		" ", "^", "|", "<", ">", "~", "!", "$", "&", "'", "(", ")", "*", "+", ",", ";", "=", "\x7f", "\x00", "\x1f", "1", "0x1", "a1", "1a",
		"\u00e9", "\u00df", "\u0131", "\u212a", "\uff21", "\uff0e", "\u3002", "\uff61", "\u00ad", "\u200d", "\u200c", "\u05d0", "\u0627", "\u4e2d", "\uff05", "\uff0f", "\ufffd", "\u2260", "\u0301", "\U0001F600"},
}
var scanHostFrames = [][2]string{{"http://", "/"}, {"ws://", "/p?q"}, {"file://", "/"}, {"x://", "/"}, {"https://u:p@", ":8/"}, {"http://", ""}, {"file://", "/C:/"}, {"x://", ":8"}}

func genHostScan(r *rand.Rand, vocab string, maxTok int) (string, int) {
	v := scanHostVocab[vocab]
	var b strings.Builder
	k := 1 + r.Intn(maxTok)
	for i := 0; i < k; i++ {
		b.WriteString(v[r.Intn(len(v))])
	}
	h := b.String()
	if vocab == "v6" && r.Intn(3) != 0 {
		h = "[" + strings.Trim(h, "[]") + "]"
	}
	fi := r.Intn(len(scanHostFrames))
	return scanHostFrames[fi][0] + h + scanHostFrames[fi][1], fi
}

func scanText(s string) proj.Text {
	// raw bytes 0x80 0xff 0xc0 in the token strings are raw invalid bytes (never part of a valid sequence)
	return proj.FromGo(s)
}

func genScan(r *rand.Rand, maxTok int) string {
	var b strings.Builder
	if r.Intn(4) != 0 {
		b.WriteString(scanSchemes[r.Intn(len(scanSchemes))])
		switch r.Intn(4) {
		case 0:
			b.WriteString("//")
		case 1:
			b.WriteString("/")
		}
	}
	k := r.Intn(maxTok + 1)
	for i := 0; i < k; i++ {
		b.WriteString(scanTokens[r.Intn(len(scanTokens))])
	}
	return b.String()
}

var kIn, kHost, kPath, kTok = envInt("VH_KIN", 6), envInt("VH_KHOST", 5), envInt("VH_KPATH", 5), envInt("VH_KTOK", 5)

func envInt(n string, d int) int {
	if v := os.Getenv(n); v != "" {
		x := 0
		fmt.Sscan(v, &x)
		return x
	}
	return d
}

func clsOf(c rune) byte {
	switch {
	case c >= 'a' && c <= 'z' || c >= 'A' && c <= 'Z':
		return 'a'
	case c >= '0' && c <= '9':
		return '0'
	case c == ' ':
		return '_'
	case c == '\t' || c == '\n' || c == '\r':
		return 't'
	case c < 0x20 || c == 0x7f:
		return 'c'
	case c >= 0x80:
		return 'u'
	case strings.ContainsRune("/\\:@?#.%[]|&=+-", c):
		return byte(c)
	}
	return 'o'
}

// skel is the run-collapsed class string of s, cut at max; with delimOnly letters / digits / other characters are dropped.
func skel(s string, max int, delimOnly bool) string {
	out := make([]byte, 0, max)
	var last byte
	for _, c := range s {
		k := clsOf(c)
		if delimOnly && (k == 'a' || k == '0' || k == 'o' || k == 'u' || k == '-' || k == '+' || k == '&' || k == '=') {
			k = 'a'
		}
		if k == last && k != '/' && k != '.' && k != ':' {
			continue
		}
		last = k
		out = append(out, k)
		if len(out) >= max {
			break
		}
	}
	return string(out)
}

func outKey(u *url.Url, err error) (k string) {
	defer func() {
		if r := recover(); r != nil {
			k = "PANIC"
		}
	}()
	if err != nil {
		return "E:" + string(werrors.Type(err))
	}
	if u == nil {
		return "NILNIL"
	}
	sch := u.Scheme()
	switch sch {
	case "http", "https", "ws", "wss", "ftp", "file":
	default:
		sch = "x"
	}
	port := u.Port()
	switch {
	case port == "" || port == "0":
	case len(port) > 1:
		port = "N"
	default:
		port = "n"
	}
	fl := ""
	if u.OpaquePath() {
		fl += "o"
	}
	if u.IsIPv4() {
		fl += "4"
	}
	if u.IsIPv6() {
		fl += "6"
	}
	return strings.Join([]string{sch, fl, skel(u.Username(), 2, false), skel(u.Password(), 2, false), skel(u.Hostname(), kHost, false), port,
		skel(u.Pathname(), kPath, false), skel(u.Search(), 3, false), skel(u.Hash(), 3, false)}, "|")
}

func applySetter(u *url.Url, name, v string) {
	switch name {
	case "protocol":
		u.SetProtocol(v)
	case "username":
		u.SetUsername(v)
	case "password":
		u.SetPassword(v)
	case "host":
		u.SetHost(v)
	case "hostname":
		u.SetHostname(v)
	case "port":
		u.SetPort(v)
	case "pathname":
		u.SetPathname(v)
	case "search":
		u.SetSearch(v)
	case "hash":
		u.SetHash(v)
	}
}

// scanCandidates explores n generated calls on p and returns at most keep representatives of distinct behaviour classes, the rarest
// classes first (a defect that needs a specific input shows as a class seen once or twice next to a dominant one).
func scanCandidates(r *rand.Rand, p url.Parser, n, keep, setterPct int, vocab string) (cands []scanCand, classes int) {
	type cl struct {
		c   scanCand
		cnt int
		ord int
	}
	seen := map[string]*cl{}
	keys := map[string]bool{}
	for i := 0; i < n; i++ {
		var c scanCand
		var key, ok string
		func() {
			defer func() {
				if rec := recover(); rec != nil {
					ok = "PANIC"
				}
			}()
			if vocab != "" {
				in, fi := genHostScan(r, vocab, kTok+3)
				c.In = scanText(in)
				key = "H" + string(rune('A'+fi)) + skel(in[len(scanHostFrames[fi][0]):], kIn+3, false)
				u, err := p.Parse(c.In.ToGo())
				ok = outKey(u, err)
				if u != nil && err == nil {
					ok += "|" + skel(u.Hostname(), 24, false)
				}
				return
			}
			if r.Intn(100) < setterPct {
				si := r.Intn(len(scanStarts))
				c.In = scanText(scanStarts[si])
				c.Setter = scanSetters[r.Intn(len(scanSetters))]
				v := genScan(r, kTok-1)
				c.Val = scanText(v)
				key = "S" + string(rune('A'+si)) + c.Setter[:3] + skel(v, kIn-1, true)
				u, err := p.Parse(scanStarts[si])
				if err == nil && u != nil {
					applySetter(u, c.Setter, c.Val.ToGo())
				}
				ok = outKey(u, err)
				return
			}
			in := genScan(r, kTok)
			c.In = scanText(in)
			if r.Intn(2) == 0 {
				bi := r.Intn(len(scanBases))
				c.Base = scanText(scanBases[bi])
				key = "R" + string(rune('A'+bi)) + skel(in, kIn-1, true)
				u, err := p.ParseRef(scanBases[bi], c.In.ToGo())
				ok = outKey(u, err)
				return
			}
			key = "P" + skel(in, kIn, true)
			u, err := p.Parse(c.In.ToGo())
			ok = outKey(u, err)
		}()
		k := key + "\x00" + ok
		keys[key] = true
		if e := seen[k]; e != nil {
			e.cnt++
		} else {
			seen[k] = &cl{c: c, cnt: 1, ord: r.Int()}
		}
	}
	all := make([]*cl, 0, len(seen))
	for _, e := range seen {
		all = append(all, e)
	}
	sort.Slice(all, func(i, j int) bool {
		if all[i].cnt != all[j].cnt {
			return all[i].cnt < all[j].cnt
		}
		return all[i].ord < all[j].ord
	})
	for _, e := range all {
		if len(cands) >= keep {
			break
		}
		cands = append(cands, e.c)
	}
	if os.Getenv("VH_SCAN_STATS") != "" {
		fmt.Fprintf(os.Stderr, "scan: %d call shapes, %d behaviour classes\n", len(keys), len(seen))
	}
	return cands, len(seen)
}
