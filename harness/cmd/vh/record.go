package main

// `vh record` runs seeded random drivers against the real library and records one ndjson event per public call
// (spec/Trace_Api.tla validates them): WPT-corpus mutation, grammar URLs, raw-byte injection for the inputs; random
// histories over parse / resolve / nine setters / SearchParams mutators / clone on three handles.

import (
	"bufio"
	"encoding/json"
	"flag"
	"fmt"
	"math/rand"
	"os"

	"verif/harness/internal/interp"
	"verif/harness/internal/proj"
)

type recEvent struct {
	Op    string           `json:"op"`
	H     int              `json:"h"`
	Hb    int              `json:"hb"`
	N     string           `json:"n"`
	A     proj.Text        `json:"a"`
	B     proj.Text        `json:"b"`
	Bs    []proj.Text      `json:"bs"`
	Bidna []proj.Text      `json:"bidna"` // hostname of the parsed base string (IDNA answer for the base), when it has a host
	Fail  bool             `json:"fail"`
	Err   string           `json:"err"`
	Objs  []interp.Obj     `json:"objs"`
	RT    []interp.Reparse `json:"rt"`
	Ret   []proj.Text      `json:"ret"` // spdet: the detached copy after the operation, flattened (name, value, name, ...)
}

var interesting = []rune{'/', '\\', ':', '@', '?', '#', '.', '%', '2', 'e', 'E', '[', ']', ' ', '\t', '\n', '|', 'C', 'a', 'Z', '0', '1', '9', 'x', '-', '+', '&', '=',
	0xe9, 0x20ac, 0x1F600, 0xFFFD, 0xFFFE, 0x7f, 0x80, 0, 0x1f, '<', '>', '"', '`', '{', '}', '^', '\'', '~', '!', '$', ';', ',', 0x2260, 0xAD, 0xFF21, 0x3002, 0x200D,
	0xFF05, 0xFF0F, 0xFF1A, 0xFF11, 0xFF0E, 0xFF10, 0xFF58, 0x2024, 0x212A, 0xDF, 0x131}

func mutate(r *rand.Rand, s []rune, corpus [][]rune, maxlen int) []rune {
	k := 1 + r.Intn(3)
	for i := 0; i < k; i++ {
		switch r.Intn(6) {
		case 0:
			if len(s) > 0 {
				p := r.Intn(len(s))
				s = append(append([]rune{}, s[:p]...), s[p+1:]...)
			}
		case 1:
			p := r.Intn(len(s) + 1)
			c := interesting[r.Intn(len(interesting))]
			s = append(append(append([]rune{}, s[:p]...), c), s[p:]...)
		case 2:
			if len(s) > 0 {
				p := r.Intn(len(s))
				s = append([]rune{}, s...)
				s[p] = interesting[r.Intn(len(interesting))]
			}
		case 3:
			o := corpus[r.Intn(len(corpus))]
			if len(o) > 0 && len(s) > 0 {
				p := r.Intn(len(s))
				q := r.Intn(len(o))
				s = append(append([]rune{}, s[:p]...), o[q:]...)
			}
		case 4:
			if len(s) > 1 {
				p := r.Intn(len(s))
				q := r.Intn(len(s))
				s = append([]rune{}, s...)
				s[p], s[q] = s[q], s[p]
			}
		case 5: // duplicate a slice (long inputs)
			if len(s) > 2 {
				p := r.Intn(len(s) - 1)
				q := p + 1 + r.Intn(len(s)-p-1)
				s = append(append(append([]rune{}, s[:q]...), s[p:q]...), s[q:]...)
			}
		}
	}
	if len(s) > maxlen {
		s = s[:maxlen]
	}
	return s
}

// toText converts generated runes to Text; rune 0x80 stands for a raw invalid byte half of the time.
func toText(r *rand.Rand, s []rune) proj.Text {
	t := make(proj.Text, 0, len(s))
	for _, c := range s {
		switch {
		case c == 0x80 && r.Intn(2) == 0:
			t = append(t, proj.RawBase+0x80)
		case c == 0xFFFE && r.Intn(2) == 0:
			t = append(t, proj.RawBase+0xFF)
		case c >= 0xD800 && c <= 0xDFFF:
			t = append(t, 0xFFFD)
		default:
			t = append(t, c)
		}
	}
	return t
}

var setterNames = []string{"protocol", "username", "password", "host", "hostname", "port", "pathname", "search", "hash"}
var spOpNames = []string{"append", "delete", "set", "sort", "sortabs"}
var smallValues = []string{"", "a", "b", "http", "https", "file", "x", "ws", "8", "80", "443", "0", "65536", "h2", "h2:9", "[::1]", "1.2.3.4", "localhost", "/", "//x", "/C|/y", "..",
	"?", "#", "a=1", "a&b", "c=d", "+", " ", "%", "%41", "%2B", "é", "0x7f.1", "a b", "\\w", "'", "`"}

func loadCorpus(path string) (corpus, bases [][]rune) {
	data, err := os.ReadFile(path)
	if err != nil {
		return [][]rune{[]rune("http://example.com/a/b?c#d")}, [][]rune{[]rune("http://example.org/foo/bar")}
	}
	var raw []interface{}
	json.Unmarshal(data, &raw)
	for _, t := range raw {
		if m, ok := t.(map[string]interface{}); ok {
			if s, ok := m["input"].(string); ok {
				corpus = append(corpus, []rune(s))
			}
			if b, ok := m["base"].(string); ok && b != "" {
				bases = append(bases, []rune(b))
			}
		}
	}
	return
}

func cmdRecord(args []string) int {
	fs := flag.NewFlagSet("record", flag.ExitOnError)
	seed := fs.Int64("seed", 1, "")
	n := fs.Int("n", 3000, "number of events (approximately)")
	out := fs.String("out", "trace.ev", "output prefix")
	chunks := fs.Int("chunks", 1, "")
	corpusPath := fs.String("corpus", "", "urltestdata.json")
	maxlen := fs.Int("maxlen", 90, "max input length (code points)")
	parseOnly := fs.Int("parse-only-percent", 50, "share of histories that consist of one parse")
	pinned := fs.String("pinned", "", "JSON array of inputs (strings) that are recorded first, one parse-only history each")
	parserName := fs.String("parser", "default", "parser the histories run on (option list, see options.go)")
	hostAlpha := fs.String("host-alphabet", "", "JSON array of code points: enumerate every host over it up to -host-len and record parse events for it (IDNA pipeline)")
	hostLen := fs.Int("host-len", 3, "")
	scanN := fs.Int("scan", 0, "novelty scan: explore this many token-generated calls on the real code, record one representative per behaviour class (scan.go)")
	scanKeep := fs.Int("scan-keep", 20000, "at most this many representatives")
	scanVocab := fs.String("scan-vocab", "", "host-focused scan: v4 | v6 | dom (frame + host built from the vocabulary)")
	scanSetters := fs.Int("scan-setter-percent", 30, "share of scanned calls that are (start URL, setter, value)")
	fs.Parse(args)
	var pinnedInputs []string
	if *pinned != "" {
		if err := json.Unmarshal([]byte(*pinned), &pinnedInputs); err != nil {
			fmt.Fprintln(os.Stderr, "bad --pinned:", err)
			return 2
		}
	}
	recP := parserFor(*parserName)
	corpus, bases := loadCorpus(*corpusPath)
	r := rand.New(rand.NewSource(*seed))
	ws := make([]*bufio.Writer, *chunks)
	for i := range ws {
		f, err := os.Create(fmt.Sprintf("%s.%d", *out, i))
		if err != nil {
			fmt.Fprintln(os.Stderr, err)
			return 2
		}
		defer f.Close()
		ws[i] = bufio.NewWriterSize(f, 1<<20)
		defer ws[i].Flush()
	}
	if *hostAlpha != "" {
		var alpha []rune
		var cps []int32
		if err := json.Unmarshal([]byte(*hostAlpha), &cps); err != nil {
			fmt.Fprintln(os.Stderr, "bad --host-alphabet:", err)
			return 2
		}
		for _, c := range cps {
			alpha = append(alpha, rune(c))
		}
		var rec func(prefix []rune, n int)
		rec = func(prefix []rune, n int) {
			if len(prefix) > 0 {
				h := string(prefix)
				pinnedInputs = append(pinnedInputs, "http://"+h+"/", "file://"+h+"/p", "wss://u@"+h+":8/?q")
			}
			if n == 0 {
				return
			}
			for _, c := range alpha {
				rec(append(append([]rune{}, prefix...), c), n-1)
			}
		}
		rec(nil, *hostLen)
		*n = 0 // only the enumerated hosts
	}
	var scanned []scanCand
	if *scanN > 0 {
		var classes int
		scanned, classes = scanCandidates(r, recP, *scanN, *scanKeep, *scanSetters, *scanVocab)
		fmt.Printf("SCAN explored=%d classes=%d kept=%d\n", *scanN, classes, len(scanned))
		*n = 0
	}
	total, hists := 0, 0
	const NH = 3
	for total < *n || len(pinnedInputs) > 0 || len(scanned) > 0 {
		w := ws[hists%*chunks]
		hists++
		m := interp.New(recP, NH)
		m.Early = r.Intn(2) == 0
		emit := func(e recEvent) {
			if e.Bs == nil {
				e.Bs = []proj.Text{}
			}
			if e.Bidna == nil {
				e.Bidna = []proj.Text{}
			}
			if e.RT == nil {
				e.RT = []interp.Reparse{}
			}
			if e.Ret == nil {
				e.Ret = []proj.Text{}
			}
			if e.A == nil {
				e.A = proj.Text{}
			}
			if e.B == nil {
				e.B = proj.Text{}
			}
			b, err := json.Marshal(e)
			if err != nil {
				panic(err)
			}
			w.Write(b)
			w.WriteByte('\n')
			total++
		}
		emit(recEvent{Op: "reset", Objs: []interp.Obj{{}, {}, {}}})
		do := func(st interp.Step) bool {
			fail, ret, errc := m.Do(&st)
			e := recEvent{Op: st.Op, H: st.H, Hb: st.Hb, N: st.N, A: st.A, B: st.B, Bs: st.Bs, Fail: fail, Objs: m.Observe(true), Ret: ret}
			if errc == "nilnil" || len(errc) >= 5 && errc[:5] == "panic" {
				if errc != "nilnil" {
					errc = "panic"
				}
				e.Err = errc
			}
			if len(st.Bs) > 0 {
				if bu, err := recP.Parse(st.Bs[0].ToGo()); err == nil && bu != nil && bu.Hostname() != "" {
					e.Bidna = []proj.Text{proj.FromGo(bu.Hostname())}
				}
			}
			if !fail && st.Op != "clone" && m.U[st.H] != nil {
				rt, ec := interp.DoReparse(recP, e.Objs[st.H-1].G)
				if ec == "" {
					if rt.G == nil {
						rt.G = &proj.Proj{}
					}
					e.RT = []interp.Reparse{rt}
				}
			}
			emit(e)
			return !fail
		}
		// start
		if len(scanned) > 0 {
			c := scanned[0]
			scanned = scanned[1:]
			st := interp.Step{Op: "parse", H: 1, A: c.In}
			if c.Base != nil {
				st.Bs = []proj.Text{c.Base}
			}
			if do(st) && c.Setter != "" {
				do(interp.Step{Op: "set", H: 1, N: c.Setter, A: c.Val})
			}
			continue
		}
		if len(pinnedInputs) > 0 {
			do(interp.Step{Op: "parse", H: 1, A: proj.FromGo(pinnedInputs[0])})
			pinnedInputs = pinnedInputs[1:]
			continue
		}
		in := toText(r, mutate(r, corpus[r.Intn(len(corpus))], corpus, *maxlen))
		st := interp.Step{Op: "parse", H: 1, A: in}
		if r.Intn(2) == 0 {
			st.Bs = []proj.Text{toText(r, bases[r.Intn(len(bases))])}
		}
		ok := do(st)
		if !ok || r.Intn(100) < *parseOnly {
			continue
		}
		live := []int{1}
		steps := 1 + r.Intn(11)
		for k := 0; k < steps; k++ {
			val := func() proj.Text {
				switch r.Intn(4) {
				case 0:
					return toText(r, mutate(r, corpus[r.Intn(len(corpus))], corpus, 40))
				case 1:
					return toText(r, mutate(r, []rune(smallValues[r.Intn(len(smallValues))]), corpus, 20))
				default:
					return proj.FromGo(smallValues[r.Intn(len(smallValues))])
				}
			}
			h := live[r.Intn(len(live))]
			free := 0
			for x := 1; x <= NH; x++ {
				if m.U[x] == nil {
					free = x
					break
				}
			}
			switch c := r.Intn(12); {
			case c == 10: // SetSearchParams with a fresh value / a detached copy / a live list (possibly the URL's own)
				how := []string{"fresh0", "fresh", "copy", "live"}[r.Intn(4)]
				st := interp.Step{Op: "setsp", H: h, N: how, A: proj.FromGo(smallValues[r.Intn(len(smallValues))]), B: proj.FromGo(smallValues[r.Intn(len(smallValues))])}
				if how == "copy" || how == "live" {
					st.Hb = live[r.Intn(len(live))]
				}
				if how == "fresh0" || how == "live" {
					st.A, st.B = proj.Text{}, proj.Text{}
				}
				do(st)
			case c == 11: // a detached copy of the list is mutated and dropped
				do(interp.Step{Op: "spdet", H: h, N: spOpNames[r.Intn(len(spOpNames))], A: proj.FromGo(smallValues[r.Intn(len(smallValues))]), B: proj.FromGo(smallValues[r.Intn(len(smallValues))])})
			case c < 5:
				do(interp.Step{Op: "set", H: h, N: setterNames[r.Intn(len(setterNames))], A: val()})
			case c < 7:
				do(interp.Step{Op: "sp", H: h, N: spOpNames[r.Intn(len(spOpNames))], A: proj.FromGo(smallValues[r.Intn(len(smallValues))]), B: proj.FromGo(smallValues[r.Intn(len(smallValues))])})
			case c < 8 && free != 0:
				if do(interp.Step{Op: "clone", H: free, Hb: h}) {
					live = append(live, free)
				}
			case free != 0:
				if do(interp.Step{Op: "resolve", H: free, Hb: h, A: val()}) {
					live = append(live, free)
				}
			default:
				do(interp.Step{Op: "set", H: h, N: setterNames[r.Intn(len(setterNames))], A: val()})
			}
		}
	}
	fmt.Printf("EVENTS kind=record n=%d histories=%d\n", total, hists)
	return 0
}

func init() { commands["record"] = cmdRecord }
