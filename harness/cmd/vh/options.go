package main

// Option / profile table shared by the C02, C16, C17 and C18 drivers. Every name here has a counterpart in
// spec/Options.tla (trigger, modelled effect) or spec/Canon.tla (profile as a composition of setters).

import (
	"strings"

	"golang.org/x/text/encoding/charmap"

	"github.com/nlnwa/whatwg-url/canonicalizer"
	"github.com/nlnwa/whatwg-url/url"
)

// two added schemes: one with a default port, one without (an empty entry: no port is ever elided for it, not even port 0)
var gopherSchemes = map[string]string{"ftp": "21", "file": "", "http": "80", "https": "443", "ws": "80", "wss": "443", "gopher": "70", "ipfs": ""}
var noFileSchemes = map[string]string{"ftp": "21", "http": "80", "https": "443", "ws": "80", "wss": "443"}

// replacement sets: default set plus '|' (0x7C) and '~' (0x7E) minus '"' (0x22) - differs from the default on three code points
func alt(s *url.PercentEncodeSet) *url.PercentEncodeSet { return s.Set(0x7C, 0x7E).Clear(0x22) }

var parserOptions = map[string]func() url.ParserOption{
	"report":             url.WithReportValidationErrors,
	"fail_on_ve":         url.WithFailOnValidationError,
	"lax_host":           url.WithLaxHostParsing,
	"collapse":           url.WithCollapseConsecutiveSlashes,
	"accept_invalid":     url.WithAcceptInvalidCodepoints,
	"single_pct":         url.WithPercentEncodeSinglePercentSign,
	"allow_path_nonbase": url.WithAllowSettingPathForNonBaseUrl,
	"skip_drive":         url.WithSkipWindowsDriveLetterNormalization,
	"skip_trailing":      url.WithSkipTrailingSlashNormalization,
	"skip_equals":        url.WithSkipEqualsForEmptySearchParamsValue,
	"special_gopher":     func() url.ParserOption { return url.WithSpecialSchemes(gopherSchemes) },
	"special_nofile":     func() url.ParserOption { return url.WithSpecialSchemes(noFileSchemes) },
	"latin1":             func() url.ParserOption { return url.WithEncodingOverride(charmap.ISO8859_1) },
	"set_path":           func() url.ParserOption { return url.WithPathPercentEncodeSet(alt(url.PathPercentEncodeSet)) },
	"set_query":          func() url.ParserOption { return url.WithQueryPercentEncodeSet(alt(url.QueryPercentEncodeSet)) },
	"set_squery": func() url.ParserOption {
		return url.WithSpecialQueryPercentEncodeSet(alt(url.SpecialQueryPercentEncodeSet))
	},
	"set_frag": func() url.ParserOption {
		return url.WithFragmentPathPercentEncodeSet(alt(url.FragmentPercentEncodeSet))
	},
	"set_sfrag": func() url.ParserOption {
		return url.WithSpecialFragmentPathPercentEncodeSet(alt(url.FragmentPercentEncodeSet))
	},
	"small_path_set": func() url.ParserOption { return url.WithPathPercentEncodeSet(url.C0PercentEncodeSet) },
	"pre_host_trim": func() url.ParserOption {
		return url.WithPreParseHostFunc(func(u *url.Url, h string) string { return strings.Trim(h, ".") })
	},
	"pre_host_const": func() url.ParserOption {
		return url.WithPreParseHostFunc(func(u *url.Url, h string) string { return "const.example" })
	},
	"post_host_const": func() url.ParserOption {
		return url.WithPostParseHostFunc(func(u *url.Url, h string) string { return "post.example" })
	},
	"remove_userinfo": canonicalizer.WithRemoveUserInfo,
	"remove_port":     canonicalizer.WithRemovePort,
	"remove_fragment": canonicalizer.WithRemoveFragment,
	"repeated_decode": canonicalizer.WithRepeatedPercentDecoding,
	"sort_keys":       func() url.ParserOption { return canonicalizer.WithSortQuery(canonicalizer.SortKeys) },
	"sort_param":      func() url.ParserOption { return canonicalizer.WithSortQuery(canonicalizer.SortParameter) },
	"default_scheme":  func() url.ParserOption { return canonicalizer.WithDefaultScheme("http") },
}

var canonOptionNames = map[string]bool{"remove_userinfo": true, "remove_port": true, "remove_fragment": true, "repeated_decode": true,
	"sort_keys": true, "sort_param": true, "default_scheme": true}

// buildParser builds a parser from a '+'-joined option list. "canon:" prefix (or any canonicalizer option) builds through
// canonicalizer.New, otherwise through url.NewParser. Predefined profiles and the package default have their own names.
func buildParser(spec string) url.Parser {
	switch spec {
	case "default":
		return defaultP
	case "newparser":
		return url.NewParser()
	case "canon_none":
		return canonicalizer.New()
	case "WhatWg":
		return canonicalizer.WhatWg
	case "WhatWgSortQuery":
		return canonicalizer.WhatWgSortQuery
	case "GoogleSafeBrowsing":
		return canonicalizer.GoogleSafeBrowsing
	case "Semantic":
		return canonicalizer.Semantic
	}
	canon := false
	if strings.HasPrefix(spec, "canon:") {
		canon = true
		spec = spec[6:]
	}
	var opts []url.ParserOption
	for _, n := range strings.Split(spec, "+") {
		if n == "" {
			continue
		}
		f, ok := parserOptions[n]
		if !ok {
			panic("unknown option " + n)
		}
		if canonOptionNames[n] {
			canon = true
		}
		opts = append(opts, f())
	}
	if canon {
		return canonicalizer.New(opts...)
	}
	return url.NewParser(opts...)
}

var parserCache = map[string]url.Parser{}

func parserFor(spec string) url.Parser {
	if p, ok := parserCache[spec]; ok {
		return p
	}
	p := buildParser(spec)
	parserCache[spec] = p
	return p
}
