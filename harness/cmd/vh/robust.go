package main

// `vh robust` is the C02 driver: every public parsing, resolving, setter, search-parameter, clone and canonicalization
// operation, for nasty inputs, under parser configurations built from the public options (all subsets of the boolean
// options, set-valued options, special-scheme maps, encoding override, host functions, the four profiles).
// Every call runs under recover() and a watchdog. One event per (input, configuration).

import (
	"bufio"
	"encoding/json"
	"flag"
	"fmt"
	"io"
	"math/rand"
	"os"
	"strings"
	"time"

	"github.com/nlnwa/whatwg-url/url"

	"verif/harness/internal/proj"
)

type badCall struct {
	Call string `json:"call"`
	What string `json:"what"` // panic | nilnil | hang | getter-panic
	Msg  string `json:"msg"`
}

type robustEvent struct {
	K     string    `json:"k"`
	Cfg   string    `json:"cfg"`
	In    proj.Text `json:"in"`
	Calls int       `json:"calls"`
	Bad   []badCall `json:"bad"`
}

var boolOptions = []string{"report", "fail_on_ve", "lax_host", "collapse", "accept_invalid", "single_pct", "allow_path_nonbase", "skip_drive", "skip_trailing", "skip_equals"}
var valuedOptions = []string{"special_gopher", "special_nofile", "latin1", "set_path", "small_path_set", "set_query", "set_sfrag", "pre_host_trim", "pre_host_const", "post_host_const",
	"remove_userinfo", "remove_port", "remove_fragment", "repeated_decode", "sort_keys", "sort_param", "default_scheme"}

func robustConfigs(seed int64, tier string) []string {
	cfgs := []string{"default", "WhatWg", "WhatWgSortQuery", "GoogleSafeBrowsing", "Semantic"}
	n := len(boolOptions)
	if tier == "thorough" {
		for m := 1; m < 1<<n; m++ { // all subsets of the boolean options
			var names []string
			for i := 0; i < n; i++ {
				if m&(1<<i) != 0 {
					names = append(names, boolOptions[i])
				}
			}
			cfgs = append(cfgs, strings.Join(names, "+"))
		}
	} else {
		// every single option and every pair (pairwise coverage)
		for i := 0; i < n; i++ {
			cfgs = append(cfgs, boolOptions[i])
			for j := i + 1; j < n; j++ {
				cfgs = append(cfgs, boolOptions[i]+"+"+boolOptions[j])
			}
		}
		cfgs = append(cfgs, strings.Join(boolOptions, "+"))
	}
	for _, v := range valuedOptions {
		cfgs = append(cfgs, v)
	}
	// random mixtures of boolean and valued options
	r := rand.New(rand.NewSource(seed))
	k := 20
	if tier == "thorough" {
		k = 200
	}
	for i := 0; i < k; i++ {
		var names []string
		for _, b := range boolOptions {
			if r.Intn(3) == 0 {
				names = append(names, b)
			}
		}
		for _, v := range valuedOptions {
			if r.Intn(5) == 0 && !(v == "special_nofile" && contains(names, "special_gopher")) {
				names = append(names, v)
			}
		}
		if len(names) > 0 {
			cfgs = append(cfgs, strings.Join(names, "+"))
		}
	}
	return cfgs
}

func contains(a []string, s string) bool {
	for _, x := range a {
		if x == s {
			return true
		}
	}
	return false
}

var robustBases = []string{"http://u:p@h:8/a/b?q#f", "file://h", "file:///C:/d", "x:o", "x://h", "http://h", "\xff://", ""}
var nastyValues = []string{"", "\xff\xfe", "\x00", "a\xffb", "%", "%zz", "[::1", "////", "::::", "@@@@", "#?#?", " \t\n", "C|", "..", "\\\\", "file", "http", "x", "gopher:"}

// exercise performs the whole menu of public calls for one input under one parser; it returns the number of calls and the bad ones.
func exercise(p url.Parser, in string) (calls int, bad []badCall) {
	try := func(name string, f func() (*url.Url, error, bool)) *url.Url {
		calls++
		var u *url.Url
		func() {
			defer func() {
				if r := recover(); r != nil {
					bad = append(bad, badCall{Call: name, What: "panic", Msg: fmt.Sprintf("%v", r)})
					u = nil
				}
			}()
			x, err, isParse := f()
			if isParse && err == nil && x == nil {
				bad = append(bad, badCall{Call: name, What: "nilnil", Msg: "nil URL and nil error"})
			}
			if err == nil {
				u = x
			}
		}()
		return u
	}
	getters := func(name string, u *url.Url) {
		if u == nil {
			return
		}
		calls++
		func() {
			defer func() {
				if r := recover(); r != nil {
					bad = append(bad, badCall{Call: name + "/getters", What: "panic", Msg: fmt.Sprintf("%v", r)})
				}
			}()
			_ = proj.Project(u)
			_ = u.String()
			_ = u.ValidationErrors()
			sp := u.SearchParams()
			_ = sp.String()
			_ = sp.Get(in)
			_ = sp.GetAll("a")
			_ = sp.Has("")
		}()
	}
	u := try("Parse", func() (*url.Url, error, bool) { x, e := p.Parse(in); return x, e, true })
	getters("Parse", u)
	for _, b := range robustBases {
		b := b
		r := try("ParseRef("+fmt.Sprintf("%q", b)+")", func() (*url.Url, error, bool) { x, e := p.ParseRef(b, in); return x, e, true })
		getters("ParseRef", r)
		rb := try("Parse(base)", func() (*url.Url, error, bool) { x, e := p.Parse(b); return x, e, true })
		if rb != nil {
			r2 := try("(*Url).Parse on "+fmt.Sprintf("%q", b), func() (*url.Url, error, bool) { x, e := rb.Parse(in); return x, e, true })
			getters("(*Url).Parse", r2)
			for _, ref := range []string{"/x", "?y", "#z", "..", "//h2"} {
				ref := ref
				r3 := try("(*Url).Parse("+ref+") on "+fmt.Sprintf("%q", b), func() (*url.Url, error, bool) { x, e := rb.Parse(ref); return x, e, true })
				getters("(*Url).Parse(ref)", r3)
			}
		}
	}
	starts := []*url.Url{u}
	for _, s := range []string{"http://u:p@h:8/a?q#f", "file:///C:/d", "x:o", "x://h/p"} {
		s := s
		starts = append(starts, try("Parse(start)", func() (*url.Url, error, bool) { x, e := p.Parse(s); return x, e, true }))
	}
	vals := append([]string{in}, nastyValues...)
	for _, su := range starts {
		if su == nil {
			continue
		}
		for _, v := range vals {
			v := v
			c := try("Clone", func() (*url.Url, error, bool) { return su.Clone(), nil, false })
			if c == nil {
				continue
			}
			setters := []struct {
				n string
				f func(string)
			}{{"SetProtocol", c.SetProtocol}, {"SetUsername", c.SetUsername}, {"SetPassword", c.SetPassword}, {"SetHost", c.SetHost}, {"SetHostname", c.SetHostname},
				{"SetPort", c.SetPort}, {"SetPathname", c.SetPathname}, {"SetSearch", c.SetSearch}, {"SetHash", c.SetHash}}
			for _, st := range setters {
				st := st
				try(st.n, func() (*url.Url, error, bool) { st.f(v); return c, nil, false })
			}
			// the state left by the whole sequence feeds the scheme setter again (scheme class / host-lessness may have changed)
			for _, sch := range []string{"file", "http", "x", v} {
				sch := sch
				try("SetProtocol after history", func() (*url.Url, error, bool) { c.SetProtocol(sch); return c, nil, false })
			}
			getters("after setters", c)
			try("SearchParams ops", func() (*url.Url, error, bool) {
				sp := c.SearchParams()
				sp.Append(v, v)
				sp.Set(v, "x")
				sp.Sort()
				sp.SortAbsolute()
				sp.Iterate(func(p *url.NameValuePair) { p.Value += v })
				sp.Delete(v)
				c.SetSearchParams(sp.Clone())
				return c, nil, false
			})
			getters("after SearchParams ops", c)
			r := try("resolve after history", func() (*url.Url, error, bool) { x, e := c.Parse(v); return x, e, true })
			getters("resolve after history", r)
		}
	}
	try("PercentEncodeString", func() (*url.Url, error, bool) {
		_ = p.PercentEncodeString(in, url.PathPercentEncodeSet)
		return nil, nil, false
	})
	return calls, bad
}

func cmdRobust(args []string) int {
	fs := flag.NewFlagSet("robust", flag.ExitOnError)
	in := fs.String("in", "-", "TLC p-lines")
	out := fs.String("out", "robust.ev", "output prefix")
	chunks := fs.Int("chunks", 1, "")
	seed := fs.Int64("seed", 1, "")
	tier := fs.String("tier", "quick", "")
	logf := fs.String("log", "", "")
	maxcfg := fs.Int("cfg-per-input", 12, "configurations per input (rotating through the whole list)")
	cfgFile := fs.String("configs", "", "configurations enumerated by TLC (spec/MC_Config.tla), one {\"t\":\"cfg\",\"names\":[..]} line each")
	fs.Parse(args)
	var r io.Reader = os.Stdin
	if *in != "-" {
		f, err := os.Open(*in)
		if err != nil {
			fmt.Fprintln(os.Stderr, err)
			return 2
		}
		defer f.Close()
		r = f
	}
	ws := make([]*bufio.Writer, *chunks)
	for i := range ws {
		f, err := os.Create(fmt.Sprintf("%s.%d", *out, i))
		if err != nil {
			fmt.Fprintln(os.Stderr, err)
			return 2
		}
		defer f.Close()
		ws[i] = bufio.NewWriterSize(f, 1<<20)
		defer ws[i].Flush()
	}
	var lw *bufio.Writer
	if *logf != "" {
		f, _ := os.Create(*logf)
		defer f.Close()
		lw = bufio.NewWriter(f)
		defer lw.Flush()
	}
	cfgs := robustConfigs(*seed, *tier)
	if *cfgFile != "" {
		cfgs = []string{"default", "WhatWg", "WhatWgSortQuery", "GoogleSafeBrowsing", "Semantic"}
		f, err := os.Open(*cfgFile)
		if err != nil {
			fmt.Fprintln(os.Stderr, err)
			return 2
		}
		cs := bufio.NewScanner(f)
		cs.Buffer(make([]byte, 1<<20), 1<<20)
		for cs.Scan() {
			raw := cs.Bytes()
			if len(raw) == 0 || raw[0] != '"' {
				continue
			}
			var inner string
			var c struct {
				T     string   `json:"t"`
				Names []string `json:"names"`
			}
			if json.Unmarshal(raw, &inner) == nil && json.Unmarshal([]byte(inner), &c) == nil && c.T == "cfg" && len(c.Names) > 0 {
				cfgs = append(cfgs, strings.Join(c.Names, "+"))
			}
		}
		f.Close()
		// deterministic shuffle so that a short rotation still mixes small and large configurations
		rr := rand.New(rand.NewSource(*seed))
		rr.Shuffle(len(cfgs), func(i, j int) { cfgs[i], cfgs[j] = cfgs[j], cfgs[i] })
	}
	n, ncalls, rot := 0, 0, 0
	used := map[string]bool{}
	sc := bufio.NewScanner(r)
	sc.Buffer(make([]byte, 1<<24), 1<<24)
	for sc.Scan() {
		raw := sc.Bytes()
		if len(raw) == 0 || raw[0] != '"' {
			if lw != nil {
				lw.Write(raw)
				lw.WriteByte('\n')
			}
			continue
		}
		var inner string
		var ln Line
		if json.Unmarshal(raw, &inner) != nil || json.Unmarshal([]byte(inner), &ln) != nil || (ln.T != "p" && ln.T != "u") {
			continue
		}
		s := ln.In.ToGo()
		for k := 0; k < *maxcfg; k++ {
			cfg := cfgs[rot%len(cfgs)]
			rot++
			used[cfg] = true
			ev := robustEvent{K: "robust", Cfg: cfg, In: ln.In, Bad: []badCall{}}
			done := make(chan struct{})
			go func() {
				defer close(done)
				defer func() {
					if r := recover(); r != nil {
						ev.Bad = append(ev.Bad, badCall{Call: "build parser", What: "panic", Msg: fmt.Sprintf("%v", r)})
					}
				}()
				c, b := exercise(parserFor(cfg), s)
				ev.Calls = c
				if b != nil {
					ev.Bad = b
				}
			}()
			select {
			case <-done:
			case <-time.After(20 * time.Second):
				ev = robustEvent{K: "robust", Cfg: cfg, In: ln.In, Bad: []badCall{{Call: "exercise", What: "hang", Msg: "no return within 20 s"}}}
			}
			ncalls += ev.Calls
			b, _ := json.Marshal(ev)
			w := ws[n%*chunks]
			w.Write(b)
			w.WriteByte('\n')
			n++
		}
	}
	fmt.Printf("EVENTS kind=robust n=%d calls=%d configs_total=%d configs_used=%d\n", n, ncalls, len(cfgs), len(used))
	return 0
}

func init() { commands["robust"] = cmdRobust }
