package main

import werrors "github.com/nlnwa/whatwg-url/errors"

// errName maps the documented error types (errors/codes.go) to their identifiers; TLC cannot carry the
// non-ASCII description strings, and membership in this table IS the "documented set" of C15.
var errName = map[werrors.ErrorType]string{
	werrors.DomainToASCII:                        "DomainToASCII",
	werrors.DomainToUnicode:                      "DomainToUnicode",
	werrors.DomainInvalidCodePoint:               "DomainInvalidCodePoint",
	werrors.HostInvalidCodePoint:                 "HostInvalidCodePoint",
	werrors.IPv4EmptyPart:                        "IPv4EmptyPart",
	werrors.IPv4TooManyParts:                     "IPv4TooManyParts",
	werrors.IPv4NonNumericPart:                   "IPv4NonNumericPart",
	werrors.IPv4NonDecimalPart:                   "IPv4NonDecimalPart",
	werrors.IPv4OutOfRangePart:                   "IPv4OutOfRangePart",
	werrors.IPv6Unclosed:                         "IPv6Unclosed",
	werrors.IPv6InvalidCompression:               "IPv6InvalidCompression",
	werrors.IPv6TooManyPieces:                    "IPv6TooManyPieces",
	werrors.IPv6MultipleCompression:              "IPv6MultipleCompression",
	werrors.IPv6InvalidCodePoint:                 "IPv6InvalidCodePoint",
	werrors.IPv6TooFewPieces:                     "IPv6TooFewPieces",
	werrors.IPv4InIPv6TooManyPieces:              "IPv4InIPv6TooManyPieces",
	werrors.IPv4InIPv6InvalidCodePoint:           "IPv4InIPv6InvalidCodePoint",
	werrors.IPv4InIPv6OutOfRangePart:             "IPv4InIPv6OutOfRangePart",
	werrors.IPv4InIPv6TooFewParts:                "IPv4InIPv6TooFewParts",
	werrors.InvalidURLUnit:                       "InvalidURLUnit",
	werrors.SpecialSchemeMissingFollowingSolidus: "SpecialSchemeMissingFollowingSolidus",
	werrors.MissingSchemeNonRelativeURL:          "MissingSchemeNonRelativeURL",
	werrors.InvalidReverseSolidus:                "InvalidReverseSolidus",
	werrors.InvalidCredentials:                   "InvalidCredentials",
	werrors.HostMissing:                          "HostMissing",
	werrors.PortMissing:                          "PortMissing",
	werrors.PortOutOfRange:                       "PortOutOfRange",
	werrors.PortInvalid:                          "PortInvalid",
	werrors.FileInvalidWindowsDriveLetter:        "FileInvalidWindowsDriveLetter",
	werrors.FileInvalidWindowsDriveLetterHost:    "FileInvalidWindowsDriveLetterHost",
}

func errCode(t werrors.ErrorType) string {
	if t == "" {
		return "EMPTY"
	}
	if n, ok := errName[t]; ok {
		return n
	}
	return "UNDOCUMENTED"
}
