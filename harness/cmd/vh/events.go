package main

// `vh events` records composite events from the real code: for every input produced by a TLC family
// (p-lines) or by the seeded generators it performs the calls that a relational property relates and
// logs their observed results as ONE ndjson event. The events are then validated by TLC
// (spec/Trace_Events.tla), which evaluates the property's relation on the observed values.

import (
	"bufio"
	"encoding/json"
	"flag"
	"fmt"
	"io"
	"os"
	"strings"

	werrors "github.com/nlnwa/whatwg-url/errors"
	"github.com/nlnwa/whatwg-url/url"

	"verif/harness/internal/proj"
)

// Res is the observed result of one parse call. JSON has no null: G is always present.
type Res struct {
	Fail   bool      `json:"fail"`
	Err    string    `json:"err"`    // error identifier ("" on success), "panic" or "nilnil"
	Detail string    `json:"detail"` // panic value
	EFail  bool      `json:"efail"`  // errors.Failure(err)
	G      proj.Proj `json:"g"`
	VE     VEList    `json:"ve"` // validation errors recorded on the URL (reporting mode)
}

// VEList marshals nil as [] (TLC's JSON reader rejects null).
type VEList []VE

func (v VEList) MarshalJSON() ([]byte, error) {
	if v == nil {
		return []byte("[]"), nil
	}
	return json.Marshal([]VE(v))
}

type VE struct {
	Type string `json:"type"`
	Fail bool   `json:"fail"`
}

var emptyProj = proj.Proj{}

func call(f func() (*url.Url, error)) (r Res) {
	defer func() {
		if rc := recover(); rc != nil {
			r = Res{Fail: true, Err: "panic", Detail: fmt.Sprintf("%v", rc), VE: VEList{}}
		}
	}()
	u, err := f()
	r.VE = VEList{}
	if err != nil {
		r.Fail = true
		r.Err = errCode(werrors.Type(err))
		r.EFail = werrors.Failure(err)
		return r
	}
	if u == nil {
		return Res{Fail: true, Err: "nilnil", VE: VEList{}}
	}
	r.G = proj.Project(u)
	for _, e := range u.ValidationErrors() {
		r.VE = append(r.VE, VE{Type: errCode(werrors.Type(e)), Fail: werrors.Failure(e)})
	}
	return r
}

func parseWith(p url.Parser, in string, bs []proj.Text) Res {
	return call(func() (*url.Url, error) {
		if len(bs) == 0 {
			return p.Parse(in)
		}
		return p.ParseRef(bs[0].ToGo(), in)
	})
}

type LawEvent struct {
	K      string      `json:"k"`
	In     proj.Text   `json:"in"`
	Bs     []proj.Text `json:"bs"`
	U      []Res       `json:"u"`     // the three entry points (or one without a base)
	Self   []Res       `json:"self"`  // Href(u) resolved against every law base and against no base
	Empty  Res         `json:"empty"` // "" against u
	Hash   Res         `json:"hash"`  // "#f" against u
	Query  Res         `json:"query"` // "?q" against u
	Rel    []Res       `json:"rel"`   // scheme-less references against u
	RelRef []proj.Text `json:"relref"`
	// the same resolutions against a second instance of u whose SearchParams() has been read first (a read-only use
	// of the base that allocates its parameter list): the laws must not depend on it
	TBase  Res   `json:"tbase"`
	TEmpty Res   `json:"tempty"`
	THash  Res   `json:"thash"`
	TQuery Res   `json:"tquery"`
	TRel   []Res `json:"trel"`
	// the base VALUE after all the resolutions above, and the empty reference resolved against it once more (C06 / C13: a resolution
	// writes nothing into its base - in particular not through a component pointer the result took over from it)
	After  Res `json:"after"`
	Empty2 Res `json:"empty2"`
}

var lawBases = []string{"http://u:p@h:8/a/b?q#f", "file:///C:/d/e", "x://h/a/b", "x:/a", "m:o", "ws://h2/"}
var relRefs = []string{"a", "/a", "//a", "..", "\\a", "./b?c", "", "?", "#", ";x", "%41", "C|/x", "?r#g", "?#", "b?c#d", "#?"}

func lawEvent(in proj.Text, bs []proj.Text) LawEvent {
	s := in.ToGo()
	e := LawEvent{K: "law", In: in, Bs: bs, Self: []Res{}, Rel: []Res{}, RelRef: []proj.Text{}, TRel: []Res{},
		TBase: Res{VE: VEList{}}, TEmpty: Res{VE: VEList{}}, THash: Res{VE: VEList{}}, TQuery: Res{VE: VEList{}}, After: Res{VE: VEList{}}, Empty2: Res{VE: VEList{}}}
	if bs == nil {
		e.Bs = []proj.Text{}
	}
	var u *url.Url
	if len(bs) == 0 {
		e.U = []Res{call(func() (*url.Url, error) { x, err := url.Parse(s); u = x; return x, err }),
			call(func() (*url.Url, error) { return defaultP.Parse(s) })}
	} else {
		b := bs[0].ToGo()
		e.U = []Res{
			call(func() (*url.Url, error) { x, err := url.ParseRef(b, s); u = x; return x, err }),
			call(func() (*url.Url, error) { return defaultP.ParseRef(b, s) }),
			call(func() (*url.Url, error) {
				bu, err := url.Parse(b)
				if err != nil {
					return nil, err
				}
				return bu.Parse(s)
			}),
		}
	}
	if e.U[0].Fail || u == nil {
		return e
	}
	href := u.Href(false)
	e.Self = append(e.Self, call(func() (*url.Url, error) { return url.Parse(href) }))
	for _, b := range lawBases {
		b := b
		e.Self = append(e.Self, call(func() (*url.Url, error) { return url.ParseRef(b, href) }))
	}
	e.Empty = call(func() (*url.Url, error) { return u.Parse("") })
	e.Hash = call(func() (*url.Url, error) { return u.Parse("#f") })
	e.Query = call(func() (*url.Url, error) { return u.Parse("?q") })
	for _, r := range relRefs {
		r := r
		e.Rel = append(e.Rel, call(func() (*url.Url, error) { return u.Parse(r) }))
		e.RelRef = append(e.RelRef, proj.FromGo(r))
	}
	e.After = call(func() (*url.Url, error) { return u, nil })
	e.Empty2 = call(func() (*url.Url, error) { return u.Parse("") })
	var ut *url.Url
	e.TBase = call(func() (*url.Url, error) {
		var x *url.Url
		var err error
		if len(bs) == 0 {
			x, err = url.Parse(s)
		} else {
			x, err = url.ParseRef(bs[0].ToGo(), s)
		}
		if err == nil && x != nil {
			_ = x.SearchParams().Has("x")
			_ = x.SearchParams().Get("a")
			ut = x
		}
		return x, err
	})
	if ut != nil {
		e.TEmpty = call(func() (*url.Url, error) { return ut.Parse("") })
		e.THash = call(func() (*url.Url, error) { return ut.Parse("#f") })
		e.TQuery = call(func() (*url.Url, error) { return ut.Parse("?q") })
		for _, r := range relRefs {
			r := r
			e.TRel = append(e.TRel, call(func() (*url.Url, error) { return ut.Parse(r) }))
		}
	}
	return e
}

// ---- C15: the four diagnostic configurations of one input ----
type DiagEvent struct {
	K      string      `json:"k"`
	In     proj.Text   `json:"in"`
	Bs     []proj.Text `json:"bs"`
	D      Res         `json:"d"`      // default
	R      Res         `json:"r"`      // reporting
	F      Res         `json:"f"`      // fail on validation error
	B      Res         `json:"b"`      // both
	EUrl   []proj.Text `json:"eurl"`   // errors.Url(err) of the default run, when it failed
	EMsgOk bool        `json:"emsgok"` // err.Error() contains the error type's text and the url
}

var (
	pReport = url.NewParser(url.WithReportValidationErrors())
	pFailVE = url.NewParser(url.WithFailOnValidationError())
	pBoth   = url.NewParser(url.WithReportValidationErrors(), url.WithFailOnValidationError())
)

func diagEvent(in proj.Text, bs []proj.Text) DiagEvent {
	s := in.ToGo()
	e := DiagEvent{K: "diag", In: in, Bs: bs, EUrl: []proj.Text{}}
	if bs == nil {
		e.Bs = []proj.Text{}
	}
	e.D = parseWith(defaultP, s, bs)
	// the accessors of the returned error value: Url() is the input the parser was working on, Error() mentions the type
	func() {
		defer func() { recover() }()
		var err error
		if len(bs) == 0 {
			_, err = defaultP.Parse(s)
		} else {
			_, err = defaultP.ParseRef(bs[0].ToGo(), s)
		}
		if err != nil {
			e.EUrl = []proj.Text{proj.FromGo(werrors.Url(err))}
			e.EMsgOk = strings.Contains(err.Error(), string(werrors.Type(err))) && strings.Contains(err.Error(), werrors.Url(err))
		}
	}()
	e.R = parseWith(pReport, s, bs)
	e.F = parseWith(pFailVE, s, bs)
	e.B = parseWith(pBoth, s, bs)
	return e
}

func cmdEvents(args []string) int {
	fs := flag.NewFlagSet("events", flag.ExitOnError)
	kind := fs.String("kind", "law", "law|diag")
	in := fs.String("in", "-", "source of inputs: TLC p-lines (file or - for stdin)")
	out := fs.String("out", "events.ndjson", "output prefix; events are spread round-robin over -chunks files <out>.<i>")
	chunks := fs.Int("chunks", 1, "number of output files")
	logf := fs.String("log", "", "file receiving TLC's own output lines")
	names := fs.String("names", "", "comma separated option / profile names (opt, idem, class)")
	fs.BoolVar(&setterEvents, "setter-events", false, "opt: also record the neutral options on the setter path")
	fs.Parse(args)
	var nameList []string
	if *names != "" {
		nameList = strings.Split(*names, ",")
	}
	var r io.Reader = os.Stdin
	if *in != "-" {
		f, err := os.Open(*in)
		if err != nil {
			fmt.Fprintln(os.Stderr, err)
			return 2
		}
		defer f.Close()
		r = f
	}
	ws := make([]*bufio.Writer, *chunks)
	for i := range ws {
		f, err := os.Create(fmt.Sprintf("%s.%d", *out, i))
		if err != nil {
			fmt.Fprintln(os.Stderr, err)
			return 2
		}
		defer f.Close()
		ws[i] = bufio.NewWriterSize(f, 1<<20)
		defer ws[i].Flush()
	}
	var lw *bufio.Writer
	if *logf != "" {
		f, err := os.Create(*logf)
		if err != nil {
			fmt.Fprintln(os.Stderr, err)
			return 2
		}
		defer f.Close()
		lw = bufio.NewWriter(f)
		defer lw.Flush()
	}
	n, scanned := 0, 0
	sc := bufio.NewScanner(r)
	sc.Buffer(make([]byte, 1<<24), 1<<24)
	for sc.Scan() {
		raw := sc.Bytes()
		if len(raw) == 0 || raw[0] != '"' {
			if lw != nil {
				lw.Write(raw)
				lw.WriteByte('\n')
			}
			continue
		}
		var inner string
		if err := json.Unmarshal(raw, &inner); err != nil {
			continue
		}
		var ln Line
		if err := json.Unmarshal([]byte(inner), &ln); err != nil {
			continue
		}
		var evs []interface{}
		switch {
		case *kind == "law" && ln.T == "p":
			evs = []interface{}{lawEvent(ln.In, ln.Bs)}
		case *kind == "diag" && ln.T == "p":
			evs = []interface{}{diagEvent(ln.In, ln.Bs)}
		case *kind == "opt" && ln.T == "p":
			nl := nameList
			if nl == nil {
				nl = optNames
			}
			evs = optEvents(&ln, nl)
		case *kind == "idem" && (ln.T == "p" || ln.T == "u"):
			evs = idemEvents(ln.In, ln.Bs, nameList, ln.T == "u")
		case *kind == "idem" && ln.T == "scan":
			var k int
			evs, k = idemScan(&ln, nameList)
			scanned += k
		case *kind == "class" && ln.T == "cls":
			evs = classEvents(ln.Sp, ln.Std, nameList)
		default:
			continue
		}
		for _, ev := range evs {
			b, err := json.Marshal(ev)
			if err != nil {
				fmt.Fprintln(os.Stderr, err)
				return 2
			}
			w := ws[n%*chunks]
			w.Write(b)
			w.WriteByte('\n')
			n++
		}
	}
	if scanned > 0 {
		fmt.Printf("SCANNED n=%d\n", scanned)
	}
	fmt.Printf("EVENTS kind=%s n=%d\n", *kind, n)
	return 0
}

// idemScan explores a token-generated input space on the real code and keeps, as events for TLC, the (input, profile) pairs on which the
// fixed-point law fails plus a sample of the others (whose output is still compared with the specification's prediction).
func idemScan(ln *Line, profs []string) (out []interface{}, scanned int) {
	sample := ln.Sample
	if sample <= 0 {
		sample = 1000
	}
	var rec func(s proj.Text, n int)
	rec = func(s proj.Text, n int) {
		for _, pre := range ln.Pre {
			in := append(append(proj.Text{}, pre...), s...)
			for _, ev := range idemEvents(in, nil, profs, false) {
				e := ev.(IdemEvent)
				scanned++
				holds := !e.Law || e.Y.Fail || (!e.Z.Fail && e.Z.G.Href.Eq(e.Y.G.Href))
				if !holds || scanned%sample == 0 {
					out = append(out, e)
				}
			}
		}
		if n == 0 {
			return
		}
		for _, t := range ln.Tok {
			rec(append(append(proj.Text{}, s...), t...), n-1)
		}
	}
	rec(proj.Text{}, ln.N)
	return
}

func init() {
	commands["events"] = cmdEvents
	_ = strings.HasPrefix
}

// ---- C16: one option configuration vs the default parser on one input ----
type OptEvent struct {
	K      string        `json:"k"`
	Opt    string        `json:"opt"`
	Setter string        `json:"setter"` // "" = parse event; otherwise In is the VALUE given to this setter on a fixed start URL (Bs[0]) under both parsers
	In     proj.Text     `json:"in"`
	Bs     []proj.Text   `json:"bs"`
	D      Res           `json:"d"`   // package-level default parser
	O      Res           `json:"o"`   // parser / profile built with the option(s)
	Alt    Res           `json:"alt"` // default parser on "http://" + input (default-scheme)
	DP     [][]proj.Text `json:"dp"`  // decoded parameter list of d
	OP     [][]proj.Text `json:"op"`  // decoded parameter list of o
}

var neutralForSetters = map[string]bool{"single_pct": true, "collapse": true, "accept_invalid+single_pct+collapse+skip_drive": true}
var setterEvents = false
var setterRot = 0

var optNames = []string{"newparser", "canon_none", "remove_userinfo", "remove_port", "remove_fragment", "canon:remove_userinfo+remove_port+remove_fragment",
	"sort_keys", "sort_param", "default_scheme", "accept_invalid", "single_pct", "collapse", "skip_drive", "special_gopher", "lax_host",
	"set_path", "set_query", "set_squery", "set_frag", "set_sfrag", "accept_invalid+single_pct+collapse+skip_drive", "canon:remove_port+sort_keys+default_scheme"}

func paramsOf(u *url.Url) [][]proj.Text {
	out := [][]proj.Text{}
	if u == nil {
		return out
	}
	for _, p := range u.SearchParams().VerifParams() {
		out = append(out, []proj.Text{normText(proj.FromGo(p[0])), normText(proj.FromGo(p[1]))})
	}
	return out
}

func normText(t proj.Text) proj.Text { return norm(t) }

func callU(f func() (*url.Url, error)) (Res, *url.Url) {
	var uu *url.Url
	r := call(func() (*url.Url, error) { u, err := f(); uu = u; return u, err })
	if r.Fail {
		uu = nil
	}
	return r, uu
}

// stringOf reads (*Url).String() - the observation point of C17 / C18; a panic shows as a value no specification predicts.
func stringOf(u *url.Url, href proj.Text) (t proj.Text) {
	defer func() {
		if recover() != nil {
			t = proj.FromGo("<String() panicked>")
		}
	}()
	if u == nil {
		return href
	}
	return proj.FromGo(u.String())
}

func parseU(p url.Parser, in string, bs []proj.Text) (Res, *url.Url) {
	return callU(func() (*url.Url, error) {
		if len(bs) == 0 {
			return p.Parse(in)
		}
		return p.ParseRef(bs[0].ToGo(), in)
	})
}

func optEvents(ln *Line, names []string) []interface{} {
	s := ln.In.ToGo()
	bs := ln.Bs
	if bs == nil {
		bs = []proj.Text{}
	}
	var out []interface{}
	for _, name := range names {
		e := OptEvent{K: "opt", Opt: name, In: ln.In, Bs: bs}
		var du, ou *url.Url
		e.D, du = callU(func() (*url.Url, error) {
			if len(bs) == 0 {
				return url.Parse(s)
			}
			return url.ParseRef(bs[0].ToGo(), s)
		})
		e.O, ou = parseU(parserFor(name), s, bs)
		e.Alt = Res{VE: VEList{}}
		if strings.Contains(name, "default_scheme") {
			e.Alt, _ = parseU(defaultP, "http://"+s, nil)
		}
		e.DP, e.OP = [][]proj.Text{}, [][]proj.Text{}
		if strings.Contains(name, "sort_") {
			func() {
				defer func() { recover() }()
				e.DP, e.OP = paramsOf(du), paramsOf(ou)
			}()
		}
		out = append(out, e)
		if setterEvents && neutralForSetters[name] && len(bs) == 0 {
			// the same option on the SETTER path: the input is used as the value of each setter on a fixed, trigger-free start URL
			setterRot++
			for _, start := range []string{[]string{"http://u:p@h:8/a/b?q#f", "x://u@h/a", "file:///C:/d"}[setterRot%3]} {
				for _, st := range []string{"username", "password", "pathname", "search", "hash", "host"} {
					start, st := start, st
					es := OptEvent{K: "opt", Opt: name, Setter: st, In: ln.In, Bs: []proj.Text{proj.FromGo(start)}, Alt: Res{VE: VEList{}}, DP: [][]proj.Text{}, OP: [][]proj.Text{}}
					apply := func(p url.Parser) Res {
						r, _ := callU(func() (*url.Url, error) {
							u, err := p.Parse(start)
							if err != nil || u == nil {
								return u, err
							}
							switch st {
							case "username":
								u.SetUsername(s)
							case "password":
								u.SetPassword(s)
							case "pathname":
								u.SetPathname(s)
							case "search":
								u.SetSearch(s)
							case "hash":
								u.SetHash(s)
							case "host":
								u.SetHost(s)
							}
							return u, nil
						})
						return r
					}
					es.D = apply(defaultP)
					es.O = apply(parserFor(name))
					out = append(out, es)
				}
			}
		}
		if (name == "newparser" || name == "canon_none") && len(bs) == 0 {
			// ParseRef with an empty base string must behave like Parse, as in the default parser
			e2 := OptEvent{K: "opt", Opt: name, In: ln.In, Bs: bs, Alt: Res{VE: VEList{}}, DP: [][]proj.Text{}, OP: [][]proj.Text{}}
			e2.D, _ = callU(func() (*url.Url, error) { return url.ParseRef("", s) })
			e2.O, _ = callU(func() (*url.Url, error) { return parserFor(name).ParseRef("", s) })
			out = append(out, e2)
		}
	}
	return out
}

// ---- C17: canonicalize twice ----
type IdemEvent struct {
	K    string        `json:"k"`
	Prof string        `json:"prof"`
	In   proj.Text     `json:"in"`
	Bs   []proj.Text   `json:"bs"`  // base string handed to the profile's ParseRef (at most one; none = Parse)
	Y    Res           `json:"y"`   // p(x)
	Z    Res           `json:"z"`   // p(y.href)
	YP   [][]proj.Text `json:"yp"`  // the parameter list stored in y (what the serializer was given)
	Law  bool          `json:"law"` // the fixed-point law is demanded of this (profile, input): always for option-composed profiles, for the
	// experimental profiles only on inputs of the ordinary-web-URL grammar
}

func idemEvents(in proj.Text, bs []proj.Text, profs []string, grammar bool) []interface{} {
	var out []interface{}
	s := in.ToGo()
	if bs == nil {
		bs = []proj.Text{}
	}
	for _, pn := range profs {
		p := parserFor(pn)
		e := IdemEvent{K: "idem", Prof: pn, In: in, Bs: bs, Z: Res{VE: VEList{}}, YP: [][]proj.Text{}, Law: grammar || !(pn == "GoogleSafeBrowsing" || pn == "Semantic")}
		var yu *url.Url
		e.Y, yu = parseU(p, s, bs)
		if !e.Y.Fail {
			// the property is stated on String(): the canonical form IS what String() returns, and that string is canonicalized again
			e.Y.G.Href = stringOf(yu, e.Y.G.Href)
			var zu *url.Url
			e.Z, zu = parseU(p, e.Y.G.Href.ToGo(), nil)
			if !e.Z.Fail {
				e.Z.G.Href = stringOf(zu, e.Z.G.Href)
			}
			func() {
				defer func() { recover() }()
				e.YP = paramsOf(yu)
			}()
		}
		out = append(out, e)
	}
	return out
}

// ---- C18: all spellings of one URL through one profile ----
type ClassEvent struct {
	K    string      `json:"k"`
	Prof string      `json:"prof"`
	Std  bool        `json:"std"` // the class uses only differences the standard itself normalises
	Sp   []proj.Text `json:"sp"`
	Outs []Res       `json:"outs"`
}

func classEvents(sp []proj.Text, std bool, profs []string) []interface{} {
	var out []interface{}
	for _, pn := range profs {
		if !std && !(pn == "GoogleSafeBrowsing" || pn == "Semantic" || strings.Contains(pn, "repeated_decode")) {
			continue // escapes / empty fragment are demanded only of profiles with repeated percent-decoding
		}
		p := parserFor(pn)
		e := ClassEvent{K: "class", Prof: pn, Std: std, Sp: sp}
		for _, s := range sp {
			r, ru := parseU(p, s.ToGo(), nil)
			if !r.Fail {
				r.G.Href = stringOf(ru, r.G.Href)
			}
			e.Outs = append(e.Outs, r)
		}
		out = append(out, e)
	}
	return out
}
