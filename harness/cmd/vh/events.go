package main

// `vh events` records composite events from the real code: for every input produced by a TLC family
// (p-lines) or by the seeded generators it performs the calls that a relational property relates and
// logs their observed results as ONE ndjson event. The events are then validated by TLC
// (spec/Trace_Events.tla), which evaluates the property's relation on the observed values.

import (
	"bufio"
	"encoding/json"
	"flag"
	"fmt"
	"io"
	"os"
	"strings"

	werrors "github.com/nlnwa/whatwg-url/errors"
	"github.com/nlnwa/whatwg-url/url"

	"verif/harness/internal/proj"
)

// Res is the observed result of one parse call. JSON has no null: G is always present.
type Res struct {
	Fail   bool      `json:"fail"`
	Err    string    `json:"err"`    // error identifier ("" on success), "panic" or "nilnil"
	Detail string    `json:"detail"` // panic value
	EFail  bool      `json:"efail"`  // errors.Failure(err)
	G      proj.Proj `json:"g"`
	VE     VEList    `json:"ve"` // validation errors recorded on the URL (reporting mode)
}

// VEList marshals nil as [] (TLC's JSON reader rejects null).
type VEList []VE

func (v VEList) MarshalJSON() ([]byte, error) {
	if v == nil {
		return []byte("[]"), nil
	}
	return json.Marshal([]VE(v))
}

type VE struct {
	Type string `json:"type"`
	Fail bool   `json:"fail"`
}

var emptyProj = proj.Proj{}

func call(f func() (*url.Url, error)) (r Res) {
	defer func() {
		if rc := recover(); rc != nil {
			r = Res{Fail: true, Err: "panic", Detail: fmt.Sprintf("%v", rc), VE: VEList{}}
		}
	}()
	u, err := f()
	r.VE = VEList{}
	if err != nil {
		r.Fail = true
		r.Err = errCode(werrors.Type(err))
		r.EFail = werrors.Failure(err)
		return r
	}
	if u == nil {
		return Res{Fail: true, Err: "nilnil", VE: VEList{}}
	}
	r.G = proj.Project(u)
	for _, e := range u.ValidationErrors() {
		r.VE = append(r.VE, VE{Type: errCode(werrors.Type(e)), Fail: werrors.Failure(e)})
	}
	return r
}

func parseWith(p url.Parser, in string, bs []proj.Text) Res {
	return call(func() (*url.Url, error) {
		if len(bs) == 0 {
			return p.Parse(in)
		}
		return p.ParseRef(bs[0].ToGo(), in)
	})
}

type LawEvent struct {
	K      string      `json:"k"`
	In     proj.Text   `json:"in"`
	Bs     []proj.Text `json:"bs"`
	U      []Res       `json:"u"`     // the three entry points (or one without a base)
	Self   []Res       `json:"self"`  // Href(u) resolved against every law base and against no base
	Empty  Res         `json:"empty"` // "" against u
	Hash   Res         `json:"hash"`  // "#f" against u
	Query  Res         `json:"query"` // "?q" against u
	Rel    []Res       `json:"rel"`   // scheme-less references against u
	RelRef []proj.Text `json:"relref"`
}

var lawBases = []string{"http://u:p@h:8/a/b?q#f", "file:///C:/d/e", "x://h/a/b", "x:/a", "m:o", "ws://h2/"}
var relRefs = []string{"a", "/a", "//a", "..", "\\a", "./b?c", "", "?", "#", ";x", "%41", "C|/x"}

func lawEvent(in proj.Text, bs []proj.Text) LawEvent {
	s := in.ToGo()
	e := LawEvent{K: "law", In: in, Bs: bs, Self: []Res{}, Rel: []Res{}, RelRef: []proj.Text{}}
	if bs == nil {
		e.Bs = []proj.Text{}
	}
	var u *url.Url
	if len(bs) == 0 {
		e.U = []Res{call(func() (*url.Url, error) { x, err := url.Parse(s); u = x; return x, err }),
			call(func() (*url.Url, error) { return defaultP.Parse(s) })}
	} else {
		b := bs[0].ToGo()
		e.U = []Res{
			call(func() (*url.Url, error) { x, err := url.ParseRef(b, s); u = x; return x, err }),
			call(func() (*url.Url, error) { return defaultP.ParseRef(b, s) }),
			call(func() (*url.Url, error) {
				bu, err := url.Parse(b)
				if err != nil {
					return nil, err
				}
				return bu.Parse(s)
			}),
		}
	}
	if e.U[0].Fail || u == nil {
		return e
	}
	href := u.Href(false)
	e.Self = append(e.Self, call(func() (*url.Url, error) { return url.Parse(href) }))
	for _, b := range lawBases {
		b := b
		e.Self = append(e.Self, call(func() (*url.Url, error) { return url.ParseRef(b, href) }))
	}
	e.Empty = call(func() (*url.Url, error) { return u.Parse("") })
	e.Hash = call(func() (*url.Url, error) { return u.Parse("#f") })
	e.Query = call(func() (*url.Url, error) { return u.Parse("?q") })
	for _, r := range relRefs {
		r := r
		e.Rel = append(e.Rel, call(func() (*url.Url, error) { return u.Parse(r) }))
		e.RelRef = append(e.RelRef, proj.FromGo(r))
	}
	return e
}

// ---- C15: the four diagnostic configurations of one input ----
type DiagEvent struct {
	K    string      `json:"k"`
	In   proj.Text   `json:"in"`
	Bs   []proj.Text `json:"bs"`
	D    Res         `json:"d"`    // default
	R    Res         `json:"r"`    // reporting
	F    Res         `json:"f"`    // fail on validation error
	B    Res         `json:"b"`    // both
	EUrl []proj.Text `json:"eurl"` // errors.Url(err) of the default run, when it failed
}

var (
	pReport = url.NewParser(url.WithReportValidationErrors())
	pFailVE = url.NewParser(url.WithFailOnValidationError())
	pBoth   = url.NewParser(url.WithReportValidationErrors(), url.WithFailOnValidationError())
)

func diagEvent(in proj.Text, bs []proj.Text) DiagEvent {
	s := in.ToGo()
	e := DiagEvent{K: "diag", In: in, Bs: bs, EUrl: []proj.Text{}}
	if bs == nil {
		e.Bs = []proj.Text{}
	}
	e.D = parseWith(defaultP, s, bs)
	e.R = parseWith(pReport, s, bs)
	e.F = parseWith(pFailVE, s, bs)
	e.B = parseWith(pBoth, s, bs)
	return e
}

func cmdEvents(args []string) int {
	fs := flag.NewFlagSet("events", flag.ExitOnError)
	kind := fs.String("kind", "law", "law|diag")
	in := fs.String("in", "-", "source of inputs: TLC p-lines (file or - for stdin)")
	out := fs.String("out", "events.ndjson", "output prefix; events are spread round-robin over -chunks files <out>.<i>")
	chunks := fs.Int("chunks", 1, "number of output files")
	logf := fs.String("log", "", "file receiving TLC's own output lines")
	fs.Parse(args)
	var r io.Reader = os.Stdin
	if *in != "-" {
		f, err := os.Open(*in)
		if err != nil {
			fmt.Fprintln(os.Stderr, err)
			return 2
		}
		defer f.Close()
		r = f
	}
	ws := make([]*bufio.Writer, *chunks)
	for i := range ws {
		f, err := os.Create(fmt.Sprintf("%s.%d", *out, i))
		if err != nil {
			fmt.Fprintln(os.Stderr, err)
			return 2
		}
		defer f.Close()
		ws[i] = bufio.NewWriterSize(f, 1<<20)
		defer ws[i].Flush()
	}
	var lw *bufio.Writer
	if *logf != "" {
		f, err := os.Create(*logf)
		if err != nil {
			fmt.Fprintln(os.Stderr, err)
			return 2
		}
		defer f.Close()
		lw = bufio.NewWriter(f)
		defer lw.Flush()
	}
	n := 0
	sc := bufio.NewScanner(r)
	sc.Buffer(make([]byte, 1<<24), 1<<24)
	for sc.Scan() {
		raw := sc.Bytes()
		if len(raw) == 0 || raw[0] != '"' {
			if lw != nil {
				lw.Write(raw)
				lw.WriteByte('\n')
			}
			continue
		}
		var inner string
		if err := json.Unmarshal(raw, &inner); err != nil {
			continue
		}
		var ln Line
		if err := json.Unmarshal([]byte(inner), &ln); err != nil || ln.T != "p" {
			continue
		}
		var ev interface{}
		switch *kind {
		case "law":
			ev = lawEvent(ln.In, ln.Bs)
		case "diag":
			ev = diagEvent(ln.In, ln.Bs)
		default:
			if f, ok := eventKinds[*kind]; ok {
				ev = f(&ln)
			} else {
				fmt.Fprintln(os.Stderr, "unknown kind", *kind)
				return 2
			}
		}
		b, err := json.Marshal(ev)
		if err != nil {
			fmt.Fprintln(os.Stderr, err)
			return 2
		}
		w := ws[n%*chunks]
		w.Write(b)
		w.WriteByte('\n')
		n++
	}
	fmt.Printf("EVENTS kind=%s n=%d\n", *kind, n)
	return 0
}

var eventKinds = map[string]func(*Line) interface{}{}

func init() {
	commands["events"] = cmdEvents
	_ = strings.HasPrefix
}
