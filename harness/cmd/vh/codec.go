package main

// `vh codec` replays the C10 lines emitted by spec/MC_Codec.tla:
//   set    - the specification's table of a named percent-encode set, compared on ALL 0x110000 code points and all bytes
//   derive - a derivation sequence (Set/Clear) with the expected registry; every real object is fingerprinted after every step
//   codec  - a string and a set with the expected encoding / decodings (byte-exact)

import (
	"bufio"
	"encoding/json"
	"flag"
	"fmt"
	"io"
	"os"

	"github.com/nlnwa/whatwg-url/url"

	"verif/harness/internal/proj"
)

type setJSON struct {
	Below int32  `json:"below"`
	Bits  []uint `json:"bits"`
}

func (s setJSON) has(c int32) bool {
	if c < s.Below || c > 0x7E {
		return true
	}
	for _, b := range s.Bits {
		if int32(b) == c {
			return true
		}
	}
	return false
}

type codecLine struct {
	T     string  `json:"t"`
	Name  string  `json:"name"`
	Set   setJSON `json:"set"`
	Steps []struct {
		Src  int    `json:"src"`
		Op   string `json:"op"`
		Bits []uint `json:"bits"`
	} `json:"steps"`
	Reg    []setJSON `json:"reg"`
	S      proj.Text `json:"s"`
	Enc    proj.Text `json:"enc"`
	Enc1   proj.Text `json:"enc1"` // expected under WithPercentEncodeSinglePercentSign
	Dec    []int     `json:"dec"`
	DecEnc []int     `json:"decenc"`
}

func namedSet(name string) *url.PercentEncodeSet {
	switch name {
	case "c0":
		return url.C0PercentEncodeSet
	case "fragment":
		return url.FragmentPercentEncodeSet
	case "query":
		return url.QueryPercentEncodeSet
	case "specialquery":
		return url.SpecialQueryPercentEncodeSet
	case "path":
		return url.PathPercentEncodeSet
	case "userinfo":
		return url.UserInfoPercentEncodeSet
	}
	return nil
}

var setNames = []string{"c0", "fragment", "query", "specialquery", "path", "userinfo"}

func realSet(s setJSON) *url.PercentEncodeSet {
	return url.NewPercentEncodeSet(s.Below, s.Bits...)
}

// sameSet compares a real set with an expected one on 0..0x100 (the general rule covers the rest; the full range is
// compared for the named sets by the "set" lines).
func sameSet(r *url.PercentEncodeSet, e setJSON, upto int32) (int32, bool) {
	for c := int32(0); c < upto; c++ {
		if r.RuneShouldBeEncoded(c) != e.has(c) {
			return c, false
		}
		if c < 256 && r.ByteShouldBeEncoded(byte(c)) != e.has(c) {
			return c, false
		}
	}
	return 0, true
}

func bytesOf(a []int) string {
	b := make([]byte, len(a))
	for i, x := range a {
		b[i] = byte(x)
	}
	return string(b)
}

func cmdCodec(args []string) int {
	fs := flag.NewFlagSet("codec", flag.ExitOnError)
	family := fs.String("family", "", "")
	in := fs.String("in", "-", "")
	out := fs.String("out", "", "")
	sum := fs.String("summary", "", "")
	logf := fs.String("log", "", "")
	fs.Parse(args)
	var r io.Reader = os.Stdin
	if *in != "-" {
		f, err := os.Open(*in)
		if err != nil {
			fmt.Fprintln(os.Stderr, err)
			return 2
		}
		defer f.Close()
		r = f
	}
	var mw, lw *bufio.Writer
	if *out != "" {
		f, _ := os.Create(*out)
		defer f.Close()
		mw = bufio.NewWriter(f)
		defer mw.Flush()
	}
	if *logf != "" {
		f, _ := os.Create(*logf)
		defer f.Close()
		lw = bufio.NewWriter(f)
		defer lw.Flush()
	}
	S := Summary{Family: *family}
	report := func(m Mismatch) {
		S.Mismatches++
		if mw != nil && S.Mismatches <= 300 {
			b, _ := json.Marshal(m)
			mw.Write(b)
			mw.WriteByte('\n')
		}
	}
	p := url.NewParser()
	p1 := url.NewParser(url.WithPercentEncodeSinglePercentSign())
	dec, ok := p.(interface{ DecodePercentEncoded(string) string })
	if !ok {
		fmt.Fprintln(os.Stderr, "DecodePercentEncoded not reachable")
		return 2
	}
	distinct := map[string]struct{}{}
	sc := bufio.NewScanner(r)
	sc.Buffer(make([]byte, 1<<24), 1<<24)
	for sc.Scan() {
		raw := sc.Bytes()
		if len(raw) == 0 || raw[0] != '"' {
			if lw != nil {
				lw.Write(raw)
				lw.WriteByte('\n')
			}
			continue
		}
		var inner string
		if json.Unmarshal(raw, &inner) != nil {
			continue
		}
		var ln codecLine
		if err := json.Unmarshal([]byte(inner), &ln); err != nil {
			fmt.Fprintln(os.Stderr, "bad line", err, inner[:min(200, len(inner))])
			return 2
		}
		S.Lines++
		rawm := json.RawMessage(inner)
		func() {
			defer func() {
				if rc := recover(); rc != nil {
					S.Panics++
					report(Mismatch{Family: *family, What: fmt.Sprintf("panic: %v", rc), Line: rawm})
				}
			}()
			switch ln.T {
			case "set":
				rs := namedSet(ln.Name)
				S.Executions += 0x110000 + 256
				if c, ok := sameSet(rs, ln.Set, 0x110000); !ok {
					report(Mismatch{Family: *family, What: "set-membership", Keys: []string{ln.Name}, Exp: ln.Set.has(c), Got: fmt.Sprintf("code point U+%04X", c), Line: rawm})
				}
				if len(S.Samples) < 6 {
					S.Samples = append(S.Samples, fmt.Sprintf("set %s compared on all 0x110000 code points and 256 bytes", ln.Name))
				}
				distinct["set:"+ln.Name] = struct{}{}
			case "derive":
				reg := []*url.PercentEncodeSet{}
				for _, n := range setNames {
					reg = append(reg, namedSet(n))
				}
				for i, st := range ln.Steps {
					src := reg[st.Src-1]
					var d *url.PercentEncodeSet
					if st.Op == "set" {
						d = src.Set(st.Bits...)
					} else {
						d = src.Clear(st.Bits...)
					}
					reg = append(reg, d)
					S.Executions++
					// after EVERY step every existing object must still be what the specification says (copy-on-derive)
					for j := range reg {
						if c, ok := sameSet(reg[j], ln.Reg[j], 256); !ok {
							report(Mismatch{Family: *family, Step: i + 1, Handle: j + 1, What: "derive: registry entry differs from the specification (entry altered by a later derivation, or wrong derivation)",
								Got: fmt.Sprintf("code point U+%04X", c), Line: rawm})
							return
						}
					}
				}
				distinct[inner] = struct{}{}
				if len(S.Samples) < 6 && S.Lines%97 == 3 {
					S.Samples = append(S.Samples, "derive "+inner[:min(len(inner), 160)])
				}
			case "codec":
				rs := realSet(ln.Set)
				s := ln.S.ToGo()
				S.Executions += 3
				enc := p.PercentEncodeString(s, rs)
				if enc != ln.Enc.ToGo() {
					report(Mismatch{Family: *family, What: "encode", Exp: ln.Enc.ToGo(), Got: enc, Line: rawm})
					return
				}
				if e1 := p1.PercentEncodeString(s, rs); e1 != ln.Enc1.ToGo() {
					report(Mismatch{Family: *family, What: "encode under WithPercentEncodeSinglePercentSign", Exp: ln.Enc1.ToGo(), Got: e1, Line: rawm})
					return
				}
				if d := dec.DecodePercentEncoded(s); d != bytesOf(ln.Dec) {
					report(Mismatch{Family: *family, What: "decode", Exp: bytesOf(ln.Dec), Got: d, Line: rawm})
					return
				}
				if d := dec.DecodePercentEncoded(enc); d != bytesOf(ln.DecEnc) {
					report(Mismatch{Family: *family, What: "decode-of-encoded", Exp: bytesOf(ln.DecEnc), Got: d, Line: rawm})
					return
				}
				// the laws on the real code itself
				if !ln.Set.has('%') && p.PercentEncodeString(enc, rs) != enc {
					report(Mismatch{Family: *family, What: "law: encoding is not idempotent", Exp: enc, Got: p.PercentEncodeString(enc, rs), Line: rawm})
					return
				}
				distinct[enc] = struct{}{}
				if len(S.Samples) < 6 && S.Lines%997 == 5 {
					S.Samples = append(S.Samples, fmt.Sprintf("encode %q with {below %d, %v} -> %q", s, ln.Set.Below, ln.Set.Bits, enc))
				}
			}
		}()
	}
	S.DistinctOut = len(distinct)
	if *sum != "" {
		b, _ := json.MarshalIndent(S, "", " ")
		os.WriteFile(*sum, b, 0o644)
	}
	fmt.Printf("CODEC family=%s lines=%d executions=%d mismatches=%d\n", *family, S.Lines, S.Executions, S.Mismatches)
	return 0
}

func init() { commands["codec"] = cmdCodec }
