// vh is the Go side of the verification harness: it replays TLC-generated behaviours on the real
// library (replay), records real executions for trace validation (record), and hosts the
// property-specific drivers. Built from /repo's working tree with -tags verif on every check.
package main

import (
	"fmt"
	"os"
)

func main() {
	if len(os.Args) < 2 {
		fmt.Fprintln(os.Stderr, "usage: vh <replay|record|...> [flags]")
		os.Exit(2)
	}
	cmd, args := os.Args[1], os.Args[2:]
	switch cmd {
	case "replay":
		os.Exit(cmdReplay(args))
	default:
		if f, ok := commands[cmd]; ok {
			os.Exit(f(args))
		}
		fmt.Fprintln(os.Stderr, "unknown command", cmd)
		os.Exit(2)
	}
}

var commands = map[string]func([]string) int{}
