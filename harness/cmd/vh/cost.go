package main

// `vh cost` measures how the cost of parsing + serializing + reading every getter + the search parameters grows
// when a fragment of URL text is repeated (C20). Families are (prefix, unit, suffix) triples generated from the
// cycles of the specification's parser state graph (spec/MC_Pump.tla) plus API-level families.
// Measures are deterministic: runtime.MemStats TotalAlloc / Mallocs deltas on a single goroutine with the GC off.

import (
	"encoding/json"
	"flag"
	"fmt"
	"os"
	"runtime"
	"runtime/debug"
	"strings"
	"syscall"

	"github.com/nlnwa/whatwg-url/canonicalizer"
	"github.com/nlnwa/whatwg-url/url"

	"verif/harness/internal/proj"
)

type costFamily struct {
	Name     string    `json:"name"`
	Prefix   proj.Text `json:"prefix"`
	Unit     proj.Text `json:"unit"`
	Suffix   proj.Text `json:"suffix"`
	Unit2    proj.Text `json:"unit2"`    // two-phase families: prefix + unit^n + unit2^n + suffix (grow a structure, then shrink / rescan it)
	BaseUnit proj.Text `json:"baseunit"` // base = base + baseunit^n (a long base resolved against a long reference)
	Base     proj.Text `json:"base"`
	Op       string    `json:"op"`   // parse (default) | setters | searchparams | canon:<profile>
	MaxN     int       `json:"maxn"` // allocation measure: skip repetition counts above this (0 = no limit)
	CPUN     int       `json:"cpun"` // CPU measure: repetition count for this family (0 = the -cpu-n flag, -1 = not measured)
}

type costResult struct {
	Name    string     `json:"name"`
	Op      string     `json:"op"`
	N       int        `json:"n"`
	Bytes   [2]uint64  `json:"bytes"`   // TotalAlloc at n and 4n
	Mallocs [2]uint64  `json:"mallocs"` // Mallocs at n and 4n
	Len     [2]int     `json:"len"`
	RatioB  float64    `json:"ratio_bytes"`
	RatioM  float64    `json:"ratio_mallocs"`
	Err     string     `json:"err"`
	CPUN    int        `json:"cpu_n"` // CPU measure (process user+system time, min of 3 runs) at cpu_n and 4*cpu_n; 0 = not measured
	CPUMs   [2]float64 `json:"cpu_ms"`
	RatioC  float64    `json:"ratio_cpu"`
}

func workload(op, in, base string) (err string) {
	defer func() {
		if r := recover(); r != nil {
			err = fmt.Sprintf("panic: %v", r)
		}
	}()
	var p url.Parser = defaultP
	switch {
	case strings.HasPrefix(op, "canon:"):
		switch op[6:] {
		case "WhatWg":
			p = canonicalizer.WhatWg
		case "WhatWgSortQuery":
			p = canonicalizer.WhatWgSortQuery
		case "GoogleSafeBrowsing":
			p = canonicalizer.GoogleSafeBrowsing
		case "Semantic":
			p = canonicalizer.Semantic
		}
	}
	var u *url.Url
	var e error
	if op == "setters" {
		u, e = p.Parse("http://u:p@h:8/a?q#f")
		if e != nil {
			return "start url"
		}
		u.SetUsername(in)
		u.SetPassword(in)
		u.SetHost(in)
		u.SetHostname(in)
		u.SetPathname(in)
		u.SetSearch(in)
		u.SetHash(in)
		u.SetPort(in)
		u.SetProtocol(in)
	} else if base != "" {
		u, e = p.ParseRef(base, in)
	} else {
		u, e = p.Parse(in)
	}
	if e != nil || u == nil {
		return "" // a rejected input still counts: rejecting must be cheap too
	}
	_ = u.Href(false)
	_ = u.Href(true)
	_ = proj.Project(u)
	sp := u.SearchParams()
	_ = sp.String()
	_ = sp.Get("a")
	if op == "searchparams" {
		sp.Append("k", "v")
		sp.Sort()
		sp.Set("k", "w")
		sp.Delete("k")
		_ = u.Href(false)
		// every list operation on the FULL list, each on its own copy: names that occur throughout the list (not only at its end)
		for _, f := range []func(*url.SearchParams){
			func(l *url.SearchParams) { l.Delete("a") }, func(l *url.SearchParams) { l.Delete("b") }, func(l *url.SearchParams) { l.Set("a", "x") },
			func(l *url.SearchParams) { l.Set("b", "x") }, func(l *url.SearchParams) { l.SortAbsolute() }, func(l *url.SearchParams) { _ = l.GetAll("a"); _ = l.Has("zz") },
		} {
			c := u.Clone()
			f(c.SearchParams())
			_ = c.Href(false)
		}
	}
	c := u.Clone()
	_ = c.Href(false)
	r, e := u.Parse("x")
	if e == nil && r != nil {
		_ = r.Href(false)
	}
	return ""
}

func measure(op, in, base string) (bytes, mallocs uint64, err string) {
	var m0, m1 runtime.MemStats
	runtime.GC()
	runtime.ReadMemStats(&m0)
	err = workload(op, in, base)
	runtime.ReadMemStats(&m1)
	return m1.TotalAlloc - m0.TotalAlloc, m1.Mallocs - m0.Mallocs, err
}

func cpuNow() float64 {
	var ru syscall.Rusage
	syscall.Getrusage(syscall.RUSAGE_SELF, &ru)
	return float64(ru.Utime.Sec)*1000 + float64(ru.Utime.Usec)/1000 + float64(ru.Stime.Sec)*1000 + float64(ru.Stime.Usec)/1000
}

// cpuOf returns the least CPU time (ms) of three runs of the workload; the GC is off and the heap is released between runs.
func cpuOf(op, in, base string) float64 {
	best := -1.0
	for i := 0; i < 3; i++ {
		runtime.GC()
		t0 := cpuNow()
		workload(op, in, base)
		d := cpuNow() - t0
		if best < 0 || d < best {
			best = d
		}
	}
	return best
}

func cmdCost(args []string) int {
	fs := flag.NewFlagSet("cost", flag.ExitOnError)
	in := fs.String("families", "", "json file: list of families")
	out := fs.String("out", "cost.json", "")
	ns := fs.String("n", "512,2048", "comma separated repetition counts")
	cpuN := fs.Int("cpu-n", 0, "also measure CPU time at this n and 4n for families whose allocation growth is linear")
	fs.Parse(args)
	b, err := os.ReadFile(*in)
	if err != nil {
		fmt.Fprintln(os.Stderr, err)
		return 2
	}
	var fams []costFamily
	if err := json.Unmarshal(b, &fams); err != nil {
		fmt.Fprintln(os.Stderr, err)
		return 2
	}
	debug.SetGCPercent(-1)
	var res []costResult
	for _, nstr := range strings.Split(*ns, ",") {
		var n int
		fmt.Sscan(nstr, &n)
		for _, f := range fams {
			if f.MaxN > 0 && n > f.MaxN {
				continue
			}
			op := f.Op
			if op == "" {
				op = "parse"
			}
			r := costResult{Name: f.Name, Op: op, N: n}
			for i, k := range []int{n, 4 * n} {
				s := f.Prefix.ToGo() + strings.Repeat(f.Unit.ToGo(), k) + strings.Repeat(f.Unit2.ToGo(), k) + f.Suffix.ToGo()
				base := f.Base.ToGo() + strings.Repeat(f.BaseUnit.ToGo(), k)
				workload(op, f.Prefix.ToGo()+f.Unit.ToGo()+f.Unit2.ToGo()+f.Suffix.ToGo(), f.Base.ToGo()+f.BaseUnit.ToGo()) // warm up lazily initialised tables
				bt, ml, e := measure(op, s, base)
				r.Bytes[i], r.Mallocs[i], r.Len[i] = bt, ml, len(s)
				if e != "" {
					r.Err = e
				}
			}
			r.RatioB = float64(r.Bytes[1]+1) / float64(r.Bytes[0]+1)
			r.RatioM = float64(r.Mallocs[1]+1) / float64(r.Mallocs[0]+1)
			res = append(res, r)
		}
	}
	if *cpuN > 0 {
		quadratic := map[string]bool{}
		for _, r := range res {
			if r.RatioB > 9 || r.RatioM > 9 {
				quadratic[r.Name] = true // never run an allocation-quadratic family at a large n
			}
		}
		for _, f := range fams {
			if quadratic[f.Name] || f.CPUN < 0 {
				continue
			}
			op := f.Op
			if op == "" {
				op = "parse"
			}
			cn := *cpuN
			if f.CPUN > 0 {
				cn = f.CPUN
			}
			r := costResult{Name: f.Name, Op: op, N: cn, CPUN: cn}
			for i, k := range []int{cn, 4 * cn} {
				s := f.Prefix.ToGo() + strings.Repeat(f.Unit.ToGo(), k) + strings.Repeat(f.Unit2.ToGo(), k) + f.Suffix.ToGo()
				base := f.Base.ToGo() + strings.Repeat(f.BaseUnit.ToGo(), k)
				r.CPUMs[i] = cpuOf(op, s, base)
				r.Len[i] = len(s)
				if i == 0 && r.CPUMs[0] > 4000 {
					r.CPUMs[1] = r.CPUMs[0] * 16 // already far too slow at n: do not run 4n
					break
				}
			}
			r.RatioC = (r.CPUMs[1] + 0.01) / (r.CPUMs[0] + 0.01)
			r.RatioB, r.RatioM = 1, 1
			res = append(res, r)
		}
	}
	ob, _ := json.MarshalIndent(res, "", " ")
	os.WriteFile(*out, ob, 0o644)
	fmt.Printf("COST families=%d measurements=%d\n", len(fams), len(res))
	return 0
}

func init() { commands["cost"] = cmdCost }
