// Package proj is the abstraction function of the verification harness: it projects a real *url.Url
// onto the observable state the TLA+ specification talks about (spec/BasicParser.tla, GettersO).
package proj

import (
	"encoding/json"
	"fmt"
	"unicode/utf8"

	"github.com/nlnwa/whatwg-url/url"
)

// RawBase is the pseudo code point base for a byte that is not part of valid UTF-8 (CodePoints.tla).
const RawBase = 0x110000

// Text is a sequence of code points as the specification carries it; JSON form is an int array.
type Text []int32

// FromGo converts a Go string to Text; every byte that is not part of a valid UTF-8 sequence becomes RawBase+b.
func FromGo(s string) Text {
	t := make(Text, 0, len(s))
	for i := 0; i < len(s); {
		r, n := utf8.DecodeRuneInString(s[i:])
		if r == utf8.RuneError && n <= 1 {
			t = append(t, RawBase+int32(s[i]))
			i++
			continue
		}
		t = append(t, r)
		i += n
	}
	return t
}

// ToGo converts Text to the Go string it denotes (raw pseudo code points become single bytes).
func (t Text) ToGo() string {
	b := make([]byte, 0, len(t))
	for _, c := range t {
		if c >= RawBase {
			b = append(b, byte(c-RawBase))
		} else {
			b = utf8.AppendRune(b, c)
		}
	}
	return string(b)
}

func (t Text) MarshalJSON() ([]byte, error) {
	if t == nil {
		return []byte("[]"), nil
	}
	return json.Marshal([]int32(t))
}

func (t Text) Eq(o Text) bool {
	if len(t) != len(o) {
		return false
	}
	for i := range t {
		if t[i] != o[i] {
			return false
		}
	}
	return true
}

func (t Text) String() string { return fmt.Sprintf("%q", t.ToGo()) }

// Proj mirrors GettersO in spec/BasicParser.tla (same keys), plus the optional parameter list.
type Proj struct {
	Href     Text `json:"href"`
	Hrefnf   Text `json:"hrefnf"`
	Protocol Text `json:"protocol"`
	Scheme   Text `json:"scheme"`
	Username Text `json:"username"`
	Password Text `json:"password"`
	Host     Text `json:"host"`
	Hostname Text `json:"hostname"`
	Port     Text `json:"port"`
	Pathname Text `json:"pathname"`
	Search   Text `json:"search"`
	Query    Text `json:"query"`
	Hash     Text `json:"hash"`
	Fragment Text `json:"fragment"`
	Opaque   bool `json:"opaque"`
	Special  bool `json:"special"`
	Ipv4     bool `json:"ipv4"`
	Ipv6     bool `json:"ipv6"`
	Dport    int  `json:"dport"`
}

// Project reads every public getter. Href is taken first; nothing here mutates the URL.
func Project(u *url.Url) Proj {
	return Proj{
		Href:     FromGo(u.Href(false)),
		Hrefnf:   FromGo(u.Href(true)),
		Protocol: FromGo(u.Protocol()),
		Scheme:   FromGo(u.Scheme()),
		Username: FromGo(u.Username()),
		Password: FromGo(u.Password()),
		Host:     FromGo(u.Host()),
		Hostname: FromGo(u.Hostname()),
		Port:     FromGo(u.Port()),
		Pathname: FromGo(u.Pathname()),
		Search:   FromGo(u.Search()),
		Query:    FromGo(u.Query()),
		Hash:     FromGo(u.Hash()),
		Fragment: FromGo(u.Fragment()),
		Opaque:   u.OpaquePath(),
		Special:  u.IsSpecialScheme(),
		Ipv4:     u.IsIPv4(),
		Ipv6:     u.IsIPv6(),
		Dport:    u.DecodedPort(),
	}
}

// Diff returns the keys on which two projections differ (restricted to keys, or all when keys is nil).
func Diff(exp, got Proj, keys map[string]bool) []string {
	var d []string
	chk := func(k string, same bool) {
		if (keys == nil || keys[k]) && !same {
			d = append(d, k)
		}
	}
	chk("href", exp.Href.Eq(got.Href))
	chk("hrefnf", exp.Hrefnf.Eq(got.Hrefnf))
	chk("protocol", exp.Protocol.Eq(got.Protocol))
	chk("scheme", exp.Scheme.Eq(got.Scheme))
	chk("username", exp.Username.Eq(got.Username))
	chk("password", exp.Password.Eq(got.Password))
	chk("host", exp.Host.Eq(got.Host))
	chk("hostname", exp.Hostname.Eq(got.Hostname))
	chk("port", exp.Port.Eq(got.Port))
	chk("pathname", exp.Pathname.Eq(got.Pathname))
	chk("search", exp.Search.Eq(got.Search))
	chk("query", exp.Query.Eq(got.Query))
	chk("hash", exp.Hash.Eq(got.Hash))
	chk("fragment", exp.Fragment.Eq(got.Fragment))
	chk("opaque", exp.Opaque == got.Opaque)
	chk("special", exp.Special == got.Special)
	chk("ipv4", exp.Ipv4 == got.Ipv4)
	chk("ipv6", exp.Ipv6 == got.Ipv6)
	chk("dport", exp.Dport == got.Dport)
	return d
}

// Key sets used by the per-property checks.
var (
	// the getters C01/C05 name: serialization + the nine components
	KeysStd = set("href", "protocol", "username", "password", "host", "hostname", "port", "pathname", "search", "hash")
	// the derived accessors of C19
	KeysDerived = set("scheme", "query", "fragment", "opaque", "special", "ipv4", "ipv6", "dport", "hrefnf")
)

// KnownKey reports whether k is a projection key.
func KnownKey(k string) bool { return KeysStd[k] || KeysDerived[k] }

func set(ks ...string) map[string]bool {
	m := map[string]bool{}
	for _, k := range ks {
		m[k] = true
	}
	return m
}

// Record is the internal URL record (through the verif-tag snapshot hook) in the spec's shape:
// optionals are [] / [v].
type Record struct {
	Scheme Text     `json:"scheme"`
	User   Text     `json:"user"`
	Pass   Text     `json:"pass"`
	Host   []Text   `json:"host"`
	Port   []int    `json:"port"`
	Opaque bool     `json:"opaque"`
	Path   []Text   `json:"path"`
	Opath  Text     `json:"opath"`
	Query  []Text   `json:"query"`
	Frag   []Text   `json:"frag"`
	Params [][]Text `json:"params"`
	HasSP  bool     `json:"hassp"`
	OwnSP  bool     `json:"ownsp"`
	Cache  []int    `json:"cache"` // internal caches that read paths must not write: decodedPort, isIPv4, isIPv6, number of recorded validation errors
}

func b2i(b bool) int {
	if b {
		return 1
	}
	return 0
}

func Snapshot(u *url.Url) Record {
	s := u.VerifSnapshot()
	r := Record{Scheme: FromGo(s.Scheme), User: FromGo(s.Username), Pass: FromGo(s.Password),
		Host: []Text{}, Port: []int{}, Path: []Text{}, Opath: Text{}, Query: []Text{}, Frag: []Text{}, Params: [][]Text{},
		Opaque: s.Opaque, HasSP: s.HasSearchParams, OwnSP: s.ParamsOwnerIsSelf,
		Cache: []int{s.DecodedPort, b2i(s.IsIPv4), b2i(s.IsIPv6), s.NValidationErrors}}
	if s.HasHost {
		r.Host = []Text{FromGo(s.Host)}
	}
	if s.HasPort {
		p := 0
		for _, c := range s.Port {
			p = p*10 + int(c-'0')
		}
		r.Port = []int{p}
	}
	if s.Opaque {
		if len(s.Path) > 0 {
			r.Opath = FromGo(s.Path[0])
		}
	} else {
		for _, seg := range s.Path {
			r.Path = append(r.Path, FromGo(seg))
		}
	}
	if s.HasQuery {
		r.Query = []Text{FromGo(s.Query)}
	}
	if s.HasFragment {
		r.Frag = []Text{FromGo(s.Fragment)}
	}
	for _, p := range s.Params {
		r.Params = append(r.Params, []Text{FromGo(p[0]), FromGo(p[1])})
	}
	return r
}
