// Package interp drives the real library through a sequence of abstract operations (the actions of
// spec/UrlApi.tla) and projects every live handle after every step.
package interp

import (
	"fmt"

	werrors "github.com/nlnwa/whatwg-url/errors"
	"github.com/nlnwa/whatwg-url/url"

	"verif/harness/internal/proj"
)

type Text = proj.Text

// Obj is the abstract state of one handle after a step: liveness, public projection, stored parameter list.
type Obj struct {
	Live  bool         `json:"live"`
	G     *proj.Proj   `json:"g,omitempty"`
	P     [][]Text     `json:"p,omitempty"`     // parameter list (expected: spec list; observed: snapshot hook)
	R     *proj.Record `json:"r,omitempty"`     // internal record (observed only; used by trace validation to resynchronise)
	SPS   *Text        `json:"sps,omitempty"`   // observed SearchParams.String() of the handle's list
	RT    *Reparse     `json:"rt,omitempty"`    // expected / observed result of re-parsing the serialization (C03)
	Law   *Law         `json:"law,omitempty"`   // expected codec law (C11)
	Alias bool         `json:"alias,omitempty"` // observed: the handle's SearchParams object writes through to another URL (C13)
}

// Law is the codec law of C11 at one state: does parse(serialize(list)) give the list back; Delims is the
// specification's characterisation of finding F03 (a delimiter character in a name or value).
type Law struct {
	Faithful bool `json:"faithful"`
	Delims   bool `json:"delims"`
}

// Reparse is the result of parsing a URL's own serialization with no base.
type Reparse struct {
	Same bool       `json:"same"`
	Fail bool       `json:"fail"`
	G    *proj.Proj `json:"g,omitempty"`
}

// DoReparse parses href with the default parser and reports the outcome relative to g.
func DoReparse(p url.Parser, g *proj.Proj) (rt Reparse, errc string) {
	defer func() {
		if r := recover(); r != nil {
			rt.Fail, errc = true, fmt.Sprintf("panic: %v", r)
		}
	}()
	u, err := p.Parse(g.Href.ToGo())
	if err != nil || u == nil {
		return Reparse{Fail: true}, ""
	}
	g2 := proj.Project(u)
	return Reparse{Same: len(proj.Diff(*g, g2, nil)) == 0, G: &g2}, ""
}

// Step is one action with its expectation (replay) or observation (record).
type Step struct {
	Op   string `json:"op"`            // parse | resolve | set | sp | clone | read
	H    int    `json:"h"`             // handle acted on / created (1-based)
	Hb   int    `json:"hb,omitempty"`  // base / source handle (resolve, clone)
	N    string `json:"n,omitempty"`   // setter name | list op | reader name
	A    Text   `json:"a"`             // input | reference | value | parameter name
	B    Text   `json:"b"`             // parameter value
	Bs   []Text `json:"bs,omitempty"`  // base string for "parse" (at most one)
	Fail bool   `json:"fail"`          // the call returned an error (parse / resolve)
	Objs []Obj  `json:"objs"`          // state of every handle after the step
	Ret  []Text `json:"ret,omitempty"` // result of a reader op (get: [] or [v]; getall: values; has: [] or [[]])
	Err  string `json:"err,omitempty"` // observed only: error type | "panic: ..." | "nilnil"
}

// Machine holds the real objects behind the handles.
type Machine struct {
	P      url.Parser
	U      []*url.Url
	SP     []*url.SearchParams // handle taken early (right after creation) when EarlySP
	Early  bool
	Entry  string // for "parse" with a base string: "ParseRef" | "ParserParseRef" | "UrlParse"
	NObj   int
	Params bool // include parameter lists in observations
}

func New(p url.Parser, nobj int) *Machine {
	return &Machine{P: p, U: make([]*url.Url, nobj+1), SP: make([]*url.SearchParams, nobj+1), NObj: nobj, Entry: "ParserParseRef", Params: true}
}

func (m *Machine) sp(h int) *url.SearchParams {
	if m.Early && m.SP[h] != nil {
		return m.SP[h]
	}
	return m.U[h].SearchParams()
}

func (m *Machine) created(h int, u *url.Url) {
	m.U[h] = u
	m.SP[h] = nil
	if m.Early && u != nil {
		m.SP[h] = u.SearchParams()
	}
}

// Do performs one step on the real library. It returns whether the call failed, reader results and an error class.
// Panics are caught and reported as err = "panic: ...".
func (m *Machine) Do(s *Step) (fail bool, ret []Text, errc string) {
	defer func() {
		if r := recover(); r != nil {
			fail, errc = true, fmt.Sprintf("panic: %v", r)
		}
	}()
	a, b := s.A.ToGo(), s.B.ToGo()
	switch s.Op {
	case "parse":
		var u *url.Url
		var err error
		if len(s.Bs) == 0 {
			u, err = m.P.Parse(a)
		} else {
			base := s.Bs[0].ToGo()
			switch m.Entry {
			case "UrlParse":
				var bu *url.Url
				bu, err = m.P.Parse(base)
				if err == nil {
					u, err = bu.Parse(a)
				}
			default:
				u, err = m.P.ParseRef(base, a)
			}
		}
		if err != nil {
			m.created(s.H, nil)
			return true, nil, errClass(err)
		}
		if u == nil {
			m.created(s.H, nil)
			return true, nil, "nilnil"
		}
		m.created(s.H, u)
	case "newurl":
		m.created(s.H, m.P.NewUrl())
	case "resolve":
		u, err := m.U[s.Hb].Parse(a)
		if err != nil {
			return true, nil, errClass(err)
		}
		if u == nil {
			return true, nil, "nilnil"
		}
		m.created(s.H, u)
	case "clone":
		m.created(s.H, m.U[s.Hb].Clone())
	case "set":
		u := m.U[s.H]
		switch s.N {
		case "protocol":
			u.SetProtocol(a)
		case "username":
			u.SetUsername(a)
		case "password":
			u.SetPassword(a)
		case "host":
			u.SetHost(a)
		case "hostname":
			u.SetHostname(a)
		case "port":
			u.SetPort(a)
		case "pathname":
			u.SetPathname(a)
		case "search":
			u.SetSearch(a)
		case "hash":
			u.SetHash(a)
		default:
			panic("unknown setter " + s.N)
		}
	case "sp":
		sp := m.sp(s.H)
		switch s.N {
		case "append":
			sp.Append(a, b)
		case "delete":
			sp.Delete(a)
		case "set":
			sp.Set(a, b)
		case "sort":
			sp.Sort()
		case "sortabs":
			sp.SortAbsolute()
		case "iterappend":
			sp.Iterate(func(p *url.NameValuePair) { p.Value += b })
		case "iterfirst":
			first := true
			sp.Iterate(func(p *url.NameValuePair) {
				if first {
					p.Value += b
				}
				first = false
			})
		default:
			panic("unknown list op " + s.N)
		}
	case "setsp":
		var arg *url.SearchParams
		switch s.N {
		case "fresh0":
			arg = &url.SearchParams{}
		case "fresh":
			arg = &url.SearchParams{}
			arg.Append(a, b)
		case "copy":
			arg = m.sp(s.Hb).Clone()
			arg.Append(a, b)
		case "live":
			arg = m.sp(s.Hb)
		default:
			panic("unknown setsp argument " + s.N)
		}
		m.U[s.H].SetSearchParams(arg)
	case "spdet":
		c := m.sp(s.H).Clone()
		switch s.N {
		case "append":
			c.Append(a, b)
		case "delete":
			c.Delete(a)
		case "set":
			c.Set(a, b)
		case "sort":
			c.Sort()
		case "sortabs":
			c.SortAbsolute()
		default:
			panic("unknown list op " + s.N)
		}
		ret = []Text{}
		for _, p := range c.VerifParams() {
			ret = append(ret, proj.FromGo(p[0]), proj.FromGo(p[1]))
		}
	case "read":
		sp := m.sp(s.H)
		switch s.N {
		case "get":
			if sp.Has(a) {
				ret = []Text{proj.FromGo(sp.Get(a))}
			} else {
				ret = []Text{}
			}
		case "getall":
			ret = []Text{}
			for _, v := range sp.GetAll(a) {
				ret = append(ret, proj.FromGo(v))
			}
		case "has":
			if sp.Has(a) {
				ret = []Text{{}}
			} else {
				ret = []Text{}
			}
		default:
			panic("unknown reader " + s.N)
		}
	default:
		panic("unknown op " + s.Op)
	}
	return false, ret, ""
}

// Observe projects every handle. It never mutates (snapshot hook for the parameter list).
func (m *Machine) Observe(full bool) []Obj {
	out := make([]Obj, m.NObj)
	for h := 1; h <= m.NObj; h++ {
		u := m.U[h]
		if u == nil {
			continue
		}
		g := proj.Project(u)
		o := Obj{Live: true, G: &g}
		if m.Params || full {
			r := proj.Snapshot(u)
			if r.HasSP {
				o.P = r.Params
			} else {
				o.P = nil
			}
			if full {
				o.R = &r
			}
			o.Alias = r.HasSP && !r.OwnSP
		}
		out[h-1] = o
	}
	return out
}

func errClass(err error) string {
	t := string(werrors.Type(err))
	if t == "" {
		return fmt.Sprintf("untyped:%T", err)
	}
	return t
}
