"""Per-property decision procedures (DESIGN.md section 4)."""
import json, os, subprocess, sys
from .core import Run, Infra, VERIF, from_cps
from .families import (Family, ApiFamily, HostFamily, CodecFamily, BASES_ALL, BASES_MAIN, filler_letter, filler_digit, filler_nonascii, rng,
                       SETTER_VALUES, ALL_SETTER_OPS, STARTS_ALL, sub_ops)
from . import findings


def describe_mismatch(m):
    ln = m.get("line", {})
    if ln.get("t") == "p":
        base = (" base=%r" % from_cps(ln["bs"][0])) if ln.get("bs") else ""
        if m["what"] == "failure":
            return "parse %r%s via %s: spec says %s, code %s" % (from_cps(ln["in"]), base, m["entry"],
                                                                 "failure" if m["exp"] else "success", "fails" if m["got"] else "succeeds")
        if m["what"] == "getters":
            k = m["keys"][0]
            e, g = m["exp"].get(k), m["got"].get(k)
            if isinstance(e, list):
                e, g = from_cps(e), from_cps(g)
            return "parse %r%s via %s: %s differ (first: %s spec=%r code=%r)" % (from_cps(ln["in"]), base, m["entry"], ",".join(m["keys"]), k, e, g)
        return "parse %r%s via %s: %s" % (from_cps(ln["in"]), base, m["entry"], m["what"])
    if ln.get("t") not in ("h", None) or "steps" not in ln:
        return "%s line %s: %s exp=%r got=%r" % (ln.get("t"), json.dumps(ln)[:300], m.get("what"), m.get("exp"), m.get("got"))
    steps = ln.get("steps", [])
    hist = "; ".join("%s%s[h%d](%s%s)" % (s["op"], "." + s["n"] if s.get("n") else "", s["h"], repr(from_cps(s.get("a") or [])),
                                         "," + repr(from_cps(s["b"])) if s.get("b") else "") for s in steps[:m.get("step", len(steps))])
    return "history {%s} (%s handle mode) step %d handle %d: %s %s" % (hist, m.get("entry"), m.get("step", 0), m.get("handle", 0), m["what"], ",".join(m.get("keys") or []))


def absorb(run, M, S, family, prop_filter=None):
    """Turn replay mismatches into violations / known findings."""
    if "hang" in S:
        run.violation("the real code did not return on a behaviour of family %s: %s" % (family, S["hang"][:300]), {"family": family, "hang": S["hang"]}, "hang")
        return
    total = S.get("mismatches", 0)
    seen_known = run.__dict__.setdefault("_seen_known", set())
    nviol = 0
    for m in M:
        if prop_filter and not prop_filter(m):
            continue
        kf = findings.match(run.prop, m)
        if kf:
            if kf["id"] not in seen_known:
                seen_known.add(kf["id"])
                run.known.append("%s: %s [e.g. %s]" % (kf["id"], kf["summary"], describe_mismatch(m)))
            continue
        nviol += 1
        if nviol <= 10:
            run.violation(describe_mismatch(m), {"property": run.prop, "kind": "replay-mismatch", "mismatch": m})
    if nviol:
        run.coverage_notes.setdefault("mismatches_by_family", {})[family] = {"reported": nviol, "total_in_family": total}


def run_parse_families(run, fams, keys="std", entries=None):
    for fam in fams:
        mod = fam.write(run.scratch)
        args = ["--keys", keys]
        if entries:
            args += ["--entries", entries]
        S, M, st = run.tlc_replay(mod, fam.name, cfg=mod + ".cfg", replay_args=args)
        absorb(run, M, S, fam.name)


# --------------------------------------------------------------------------------------------
# C01 - parsing conforms to the standard
# --------------------------------------------------------------------------------------------
def c01_families(run):
    q = run.tier == "quick"
    L, D, U = filler_letter(run.seed), filler_digit(run.seed), filler_nonascii(run.seed)
    inv = ["PtrOk", "BasesParse"]
    fams = [
        Family("struct", L + ":/\\?#@.", 4 if q else 5, prefixes=["", "http:", "file:", "x:"],
               bases=BASES_MAIN if q else BASES_ALL, invariants=inv),
        Family("host", "01" + D + "xX" + "af" + L + ".-+:[]%2", 3 if q else 4, prefixes=["http://", "x://", "file://"], suffixes=["", "/p"] if not q else [""],
               invariants=inv),
        Family("path", ".%2eE/\\" + L, 4 if q else 5, prefixes=["http://h/", "x://h/", "x:/", "file:///"], suffixes=["", "?q"] if not q else [""], invariants=inv),
        Family("file", "C|:/\\?#" + L + ".", 3 if q else 4, prefixes=["file:", "", "/", "//"],
               bases=["file:///C:/d/e", "file://fh/x/y?q#f"] + ([] if q else ["file:///D|/a", "file:///", "file:///a/b?q"]), invariants=inv),
        Family("ipv4deep", "01.", 8 if q else 10, prefixes=["http://"], invariants=inv),
        Family("ipv6deep", "1:.", 7 if q else 9, prefixes=["http://["], suffixes=["]"], invariants=inv),
        # two zero runs (ties between runs, a run at the end): the compression choice of the serializer
        # the port position: ASCII digits, digits of other scripts (full-width, Arabic-Indic - not ASCII digits: failure), terminators
        Family("portchars", [0x30, 0x39, 0x37, 0xFF11, 0x0661, ord(":"), ord("/"), ord(L)], 3, prefixes=["http://h:", "x://h:8", "ws://[::1]:"], suffixes=["", "/p"], invariants=inv),
        # zero pieces before, inside and AFTER the run the serializer compresses (its output must parse back to the same address)
        Family("v6zeros", "01:", 6 if q else 7, prefixes=["http://[", "x://[1:"], suffixes=["]/"], invariants=inv),
        Family("ipv6ties", "01:", 5 if q else 6, frames=[("http://[1:0:0:", ":0:0]/"), ("x://[0:0:", ":0:0:0]"), ("http://[1:", "::]")], invariants=inv),
        Family("brackets", "[]:1", 6 if q else 7, prefixes=["http://", "x://"], suffixes=["/"], invariants=inv),
        Family("dotdeep", "./" + L, 7 if q else 9, prefixes=["http://h/a/b/", "x:/a/"], bases=[] , invariants=inv),
        Family("creds", L + "@:", 6 if q else 8, prefixes=["http://", "x://"], suffixes=["h/"], invariants=inv),
    ]
    # dotspell: every spelling of '.' and '..' segments ('.', %2e, %2E in every combination) in every path position
    singles = [".", "%2e", "%2E"]
    doubles = [a + b for a in singles for b in singles]
    dframes = [(pre + d, sfx) for d in singles + doubles for pre in ("http://h/a/b/", "x://h/a/b/", "file:///a/", "http://h/a/b/" + L) for sfx in ("", "/", "/c", "?q", L)]
    fams.append(Family("dotspell", "/." + L, 1 if q else 2, frames=dframes, bases=[] if q else ["http://b/x/y/z"], invariants=inv))
    # class: one code point substituted at each of 12 positions, alone and next to '%'
    boundary = [0x7F, 0x80, 0xA0, 0x7FF, 0x800, 0xD7FF, 0xE000, 0xFDD0, 0xFFFD, 0xFFFE, 0x10000, 0x1FFFE, 0x10FFFF,
                0x110080, 0x1100C0, 0x1100FF]   # the last three are raw invalid bytes 0x80 0xC0 0xFF
    r = rng(run.seed, "class")
    extra = [r.randrange(0xA1, 0x2FFF) for _ in range(4)] + [ord(U)]
    alphabet = list(range(0, 128)) + boundary + extra
    frames = [("", "://h/"), ("s", "://h/"), ("http://", "@h/"), ("http://u:", "@h/"), ("http://", "/"), ("http://a", "b/"),
              ("x://", "/"), ("x://a", "b/"), ("http://h:", "/"), ("http://h:8", "/"), ("http://h/", ""), ("http://h/a", "b"),
              ("x://h/", ""), ("x:", ""), ("x:a", "b"), ("http://h/?", ""), ("x://h/?", ""), ("http://h/#", ""), ("x:#", ""),
              ("http://h/%", ""), ("http://h/?%", "1"), ("x:%4", ""), ("file:///", ""), ("file://", "/")]
    fams.append(Family("class", alphabet, 1, minlen=1, frames=frames, invariants=inv))
    # ws: C0/space/tab/newline spliced into every position of a few seed URLs
    seeds = ["http://u:p@h:8/a?q#f", "file:///C:/d", "x:o p"]
    wsframes = [(s[:i], s[i:]) for s in seeds for i in range(len(s) + 1)]
    fams.append(Family("ws", [0, 9, 10, 13, 32, 31], 1 if q else 2, minlen=1, frames=wsframes, bases=["http://b/c"] if not q else [], invariants=inv))
    return fams


def check_c01(run):
    run.build_harness()
    run.selftest()
    run_parse_families(run, c01_families(run), keys="std")
    run_traces(run, salt=1, parse_only=95)
    run_scan(run, salt=1)
    run.assumptions += ["IDNA mapping of non-ASCII / xn-- labels is taken as given (behaviours needing it are skipped in E-mode and inferred from the log in T-mode)",
                        "bounded: every string over each family alphabet up to the stated length; longer inputs only through recorded random traces"]
    return run.finish("model_checking", "every string over a family alphabet (the characters the parser states branch on) up to the family bound, "
                      "times every base of the family; one TLC step per parser-loop iteration; a case is distinct by its expected outcome "
                      "(expected serialization, or failure); distinct_nontrivial counts distinct expected outcomes")


def run_traces(run, n_quick=3000, n_thorough=50000, salt=0, maxlen=90, parse_only=50, pinned=None):
    """T-mode: record seeded random executions of the real code and validate them with TLC (Trace_Api.tla).
    Only the verdicts that speak about this property (their tag names it) or a crash are this check's business."""
    n = n_quick if run.tier == "quick" else n_thorough
    rounds = 1 if run.tier == "quick" else 4
    for i in range(rounds):
        bad, nev = run.record_and_validate(n // rounds, seed_salt=salt * 10 + i, maxlen=maxlen if i % 2 == 0 else 200, parse_only=parse_only, pinned=pinned if i == 0 else None)
        mine = []
        for ev, verdicts in bad:
            vs = [v for v in verdicts if run.prop in v.split(":")[0] or v == "crash"]
            if vs:
                mine.append((dict(ev, k="trace", **{"in": ev.get("a", [])}), vs))
        absorb_events(run, mine, "recorded-traces")
    if len(run.samples) < 12:
        run.samples.append("[T-mode] %d events recorded from seeded random drivers on the real code (WPT-corpus mutation, raw bytes, histories over parse/resolve/setters/"
                           "SearchParams/clone on 3 handles) and validated by TLC against UrlApi.tla, state adopted from the log after every event" % n)


def run_scan(run, explore_quick=1000000, keep_quick=30000, explore_thorough=6000000, keep_thorough=240000, setter_pct=0, salt=0, parser=None, vocab=None, tags=None):
    """Novelty scan (T-mode front end): the driver explores a token-generated space of calls on the real code and records one representative
    of each of the rarest behaviour classes; TLC validates every recorded event exactly (Trace_Api.tla) - verdicts come from TLC only."""
    q = run.tier == "quick"
    explore, keep = (explore_quick, keep_quick) if q else (explore_thorough, keep_thorough)
    rounds = 1 if q else 4
    for i in range(rounds):
        bad, nev = run.record_and_validate(0, seed_salt=700 + salt * 10 + i, scan=(explore // rounds, keep // rounds, setter_pct, vocab), parser=parser)
        mine = []
        # a host-focused scan (vocab) belongs to a host property: every input is frame + host, so a parse verdict (tag C01) on it is about that host
        mytags = tags or [run.prop]
        for ev, verdicts in bad:
            vs = [v for v in verdicts if any(t in v.split(":")[0] for t in mytags) or v == "crash"]
            if vs:
                mine.append((dict(ev, k="trace", **{"in": ev.get("a", [])}), vs))
        absorb_events(run, mine, "novelty-scan")
        other = {}
        for ev, verdicts in bad:
            for v in verdicts:
                if not (any(t in v.split(":")[0] for t in mytags) or v == "crash"):
                    other[v[:80]] = other.get(v[:80], 0) + 1
        if other:
            run.families[-1]["verdicts_about_other_properties"] = other


def run_api_families(run, fams, keys="all", spmodes="late,early", params=True, workers=None):
    for fam in fams:
        mod = fam.write(run.scratch)
        args = ["--keys", keys, "--spmodes", spmodes] + ([] if params else ["--params=false"])
        S, M, st = run.tlc_replay(mod, fam.name, cfg=mod + ".cfg", replay_args=args, workers=workers)
        absorb(run, M, S, fam.name)


# --------------------------------------------------------------------------------------------
# C05 - setters implement the standard's setter algorithms
# --------------------------------------------------------------------------------------------
def setter_families(run, with_rt=False, inv=("AllWellFormed", "AllGettersOk")):
    q = run.tier == "quick"
    r = rng(run.seed, "starts")
    fams = [
        ApiFamily("set_d1_full", STARTS_ALL, ALL_SETTER_OPS, depth=2, invariants=inv, with_rt=with_rt),
        # every PAIR of calls over the full value alphabet (state left by one setter feeds the next), from half / all of the starts
        ApiFamily("set_d2_full", r.sample(STARTS_ALL, 7) if q else STARTS_ALL, ALL_SETTER_OPS, depth=3, invariants=inv, with_rt=with_rt),
        # a URL obtained by RESOLUTION (port / credentials copied from the base), then protocol / port / host setters
        ApiFamily("res_then_set", ["http://h:443/a/b?q#f", "https://u:p@h:80/x", "ws://h:21/", "x://:p@h:8/a"], acton=[2], nh=2, depth=3, refs=["c", "?q", "#f", "", "/x", "//h2:443"],
                  setter_ops=[(n, v) for n in ("protocol", "port", "host") for v in SETTER_VALUES[n]], invariants=inv, with_rt=with_rt),
        ApiFamily("set_closure", r.sample(STARTS_ALL, 3 if q else 6) + ["http://u:p@h:8/a/b?q#f"], sub_ops(run.seed, "cl", 2 if q else 3),
                  mode="closure", invariants=inv, with_rt=with_rt),
    ]
    # setters on a URL that was never parsed (Parser.NewUrl): every pair of calls over the full alphabet
    fams.append(ApiFamily("newurl_d2", ["<newurl>"], ALL_SETTER_OPS, depth=3, with_rt=False))
    if not q:
        fams.append(ApiFamily("set_d3_sub", r.sample(STARTS_ALL, 8), sub_ops(run.seed, "d3", 2), depth=4, invariants=inv, with_rt=with_rt))
        fams.append(ApiFamily("set_d3_sub3", r.sample(STARTS_ALL, 5), sub_ops(run.seed, "d3b", 3), depth=4, invariants=inv, with_rt=with_rt))
        fams.append(ApiFamily("set_d4_sub1", r.sample(STARTS_ALL, 6), sub_ops(run.seed, "d4", 1), depth=5, invariants=inv, with_rt=with_rt))
    return fams


def check_c05(run):
    run.build_harness()
    run.selftest()
    run_api_families(run, setter_families(run), keys="std", spmodes="late,early", params=False)
    run_traces(run, salt=5, parse_only=10)
    run_scan(run, salt=5, setter_pct=100, keep_quick=25000, explore_quick=800000)
    run.assumptions.append("histories over the value alphabets of DESIGN.md 4/C05 (chosen to hit every guard and early return of each setter); arbitrary string values only through recorded random traces")
    return run.finish("model_checking", "all setter histories up to the tree depth over the value alphabets x 17 start URLs, plus the closure of the URL "
                      "records under a seed-chosen op sub-alphabet (every transition replayed as path-to-source + op); a case is distinct by the "
                      "expected state of all handles after the last step")


REFS = ["", "#f", "?q", "a", "/a", "//h2/x", "../..", "x:o", "\\a", "http:b", "file:c", ".", "C|/z", "//1.2.3.4:0", "?", "#", "?r#g"]
SP_NAMES = ["", "a", "b", "a&b", "c=d", "+", " ", "%", "%41", "\u00e9", "#", "~", "a b"]
SP_VALUES = ["", "1", "x y", "&", "=", "+", "%2B", "\u00e9", "'", "#"]
SP_STARTS = ["http://h/?b=2&a=1&b=3", "http://h/p", "x:o?a=1", "http://h/?a+b=c%20d&&=x", "x://h/?%41=%2B&a=1%2B1", "m:o ?q#f", "http://h/?", "http://h/?a=1#f"]


def sp_ops(names, values, with_sort=True, with_iter=True):
    ops = [("append", n, v) for n in names for v in values] + [("set", n, v) for n in names for v in values] + [("delete", n, "") for n in names]
    if with_sort:
        ops += [("sort", "", ""), ("sortabs", "", "")]
    if with_sort and with_iter:
        # Iterate(f): f appends to every value / only to the first pair's value (values grow: trees only, not closures)
        ops += [("iterappend", "", values[0] if values and values[0] else "z"), ("iterfirst", "", "w")]
    return ops


def history_families(run, with_rt=False):
    """Setters + resolve + clone over three handles (C04 / C19 / C13 share these shapes)."""
    q = run.tier == "quick"
    r = rng(run.seed, "hist")
    inv = ("AllWellFormed", "AllGettersOk")
    host_port_ops = [(n, v) for n in ("host", "hostname", "port", "protocol") for v in SETTER_VALUES[n]]
    fams = [
        ApiFamily("res_d2", STARTS_ALL, sub_ops(run.seed, "res", 1), refs=REFS, depth=3, nh=3, clone=True, invariants=inv, with_rt=with_rt),
        ApiFamily("hostport_d2", ["http://1.2.3.4/", "http://h:0/", "https://[::1]:443/", "x://1.2.3.4:80/", "ws://u@h:81/p", "file://h/"],
                  host_port_ops if not q else r.sample(host_port_ops, 18), refs=["/x", "//5.6.7.8", "?q", "//[::2]:0/", "x:o"], depth=3, nh=2, clone=True,
                  invariants=inv, with_rt=with_rt),
        ApiFamily("hist_closure", r.sample(STARTS_ALL, 2 if q else 4), sub_ops(run.seed, "hcl", 1), refs=r.sample(REFS, 3), mode="closure", nh=2,
                  clone=True, invariants=inv, with_rt=with_rt),
    ]
    return fams


# --------------------------------------------------------------------------------------------
# C03 - serialize-then-parse is the identity
# --------------------------------------------------------------------------------------------
def check_c03(run):
    run.build_harness()
    run.selftest()
    fams = c01_families(run)
    for f in fams:
        f.invariants.append("RoundTripInv")     # design: the standard round-trips on every parser output of the family
    keep = {"struct", "host", "path", "file", "class", "brackets", "dotdeep", "ipv6ties", "v6zeros"} if run.tier == "quick" else None
    for fam in fams:
        if keep and fam.name not in keep:
            continue
        if run.tier == "quick" and fam.name == "struct":
            fam.maxlen = 3
        mod = fam.write(run.scratch)
        S, M, st = run.tlc_replay(mod, fam.name, cfg=mod + ".cfg", replay_args=["--keys", "std", "--reparse", "--entries", "Parse,UrlParse"])
        absorb(run, M, S, fam.name)
    # after setters: the expected state carries the expected re-parse (the standard's own exceptions are computed, not hard-coded)
    run_api_families(run, setter_families(run, with_rt=True), keys="std", spmodes="late,early", params=False)
    run_traces(run, salt=3, pinned=["http://a\u2260b/", "http://Xn--pokxncvks.example/", "wss://XN--nxasmq6b.a_b/", "file://%58N--a.pt/p"])   # F21; ACE labels the mapping rejects (an accepted one would not re-parse)
    run_scan(run, salt=3, setter_pct=40, keep_quick=20000, explore_quick=700000)
    run.assumptions.append("the standard's own non-round-tripping states (file + non-normalized drive letter, file://localhost via protocol setter) are computed by the specification per state; the code must then behave exactly as the standard does")
    return run.finish("model_checking", "every terminal state of the parse families is re-parsed on the real code (identity demanded; TLC checks the same "
                      "invariant on the specification), and every state of the setter trees/closure carries the specification's expected re-parse "
                      "result; a case is distinct by expected outcome")


# --------------------------------------------------------------------------------------------
# C04 - well-formed record, coherent getters
# --------------------------------------------------------------------------------------------
def check_c04(run):
    run.build_harness()
    run.selftest()
    run_api_families(run, setter_families(run) + history_families(run), keys="shape", spmodes="late")
    fams = [f for f in c01_families(run) if f.name in ("struct", "class", "host")]
    for f in fams:
        f.invariants += ["WellFormedInv", "GettersInv"]
        if f.name == "struct" and run.tier == "quick":
            f.maxlen = 3
    run_parse_families(run, fams, keys="shape")
    run_traces(run, salt=4)
    run_scan(run, salt=4, setter_pct=50, keep_quick=20000, explore_quick=700000)
    run.assumptions.append("WellFormed/Composition/Derived are TLC invariants on every reachable specification state; the code is held to them through equality of the full projection (19 getters) with the specification state")
    return run.finish("model_checking", "closure and bounded trees of the object machine (setters, resolve of further references, clone) plus parse families; "
                      "TLC checks WellFormed, ComponentsOk, CompositionG, DerivedG on every state; every state is replayed and all 19 getters compared; "
                      "distinct = distinct expected final states")


# --------------------------------------------------------------------------------------------
# C19 - derived accessors agree with the primary components
# --------------------------------------------------------------------------------------------
def check_c19(run):
    run.build_harness()
    run.selftest()
    run_api_families(run, history_families(run) + (setter_families(run)[:1] if run.tier == "quick" else setter_families(run)[:2]), keys="derived,hostname,port,href", spmodes="late")
    fams = [f for f in c01_families(run) if f.name in ("host", "ipv4deep", "brackets", "struct")]     # struct: every shape of URL (opaque / host-less / empty components)
    for f in fams:
        f.invariants += ["GettersInv"]
        if f.name == "struct":
            f.maxlen = 3 if run.tier == "quick" else 4
    # address VALUES of every kind (the host-kind accessors must not depend on which address it is): IPv4-mapped / -compatible / NAT64 / link-local /
    # multicast / documentation IPv6 prefixes and loopback / broadcast / unspecified / multicast / link-local IPv4 ranges, completed over a small alphabet
    q = run.tier == "quick"
    fams.append(Family("v6kinds", "1.:f0", 3 if q else 4, frames=[("http://[::ffff:", "]/"), ("http://[::", "]/"), ("ws://[64:ff9b::", "]/"), ("x://[::ffff:", "]"),
                                                              ("http://[fe80::", "]:8/"), ("file://[ff02::", "]/p"), ("http://[2001:db8::", "]"), ("http://[::ffff:0:", "]"),
                                                              ("http://[0:0:0:0:0:ffff:", "]/")], invariants=["PtrOk", "GettersInv"]))
    fams.append(Family("v4kinds", "0259.", 3, frames=[("http://", ".0.0.1/"), ("http://127.", "/"), ("http://", "/"), ("http://255.255.255.", "/"), ("x://0.0.0.", "/"),
                                                      ("ws://224.0.0.", ""), ("http://169.254.", ".1:8"), ("file://10.", "/p")], invariants=["PtrOk", "GettersInv"]))
    run_parse_families(run, fams, keys="derived,hostname,port,href")
    # the same accessors under a parser with another special-scheme table ("the URL is special" is relative to its parser)
    gstarts = ["gopher://0x7f.1/", "gopher://h:70/x", "http://1.2.3.4:70/", "gopher://[::1]:7/", "x://1.2.3.4/", "file://1.2.3.4/p", "ipfs://h:0/x", "http://h:0/"]
    gops = [("protocol", v) for v in ("gopher", "http", "x", "file", "ipfs")] + [("host", v) for v in ("5.6.7.8", "h2", "[::2]:70", "0x10.1:80")] + [("port", v) for v in ("70", "", "0", "80")]
    for pname in ("special_gopher", "special_nofile"):
        fam = ApiFamily("derived_" + pname, gstarts, setter_ops=gops, refs=["/x", "//9.9.9.9", "?q"], depth=3, nh=2, clone=True, popts='OptsOf("%s")' % pname)
        mod = fam.write(run.scratch)
        S, M, st = run.tlc_replay(mod, fam.name, cfg=mod + ".cfg", replay_args=["--keys", "derived,hostname,port,href", "--spmodes", "late", "--parser", pname])
        absorb(run, M, S, fam.name)
    # ... and under lax host parsing: a host the strict parser rejects is kept as text - never an address, whatever its last label looks like
    lstarts = ["http://a b.1/", "http://%ff.0x10/x", "http://ex|ample.80/", "http://1.2.3.4/", "http://a.b/", "ws://a^b.7:81/", "http://0x10.1/", "x://a b.1/"]
    lops = [("host", v) for v in ("a<b.12", "5.6.7.8", "h2", "c d.0x1:8", "[::1]")] + [("hostname", "x y.9"), ("protocol", "x"), ("protocol", "https"), ("port", "9")]
    fam = ApiFamily("derived_lax", lstarts, setter_ops=lops, refs=["/x", "//e f.3/", "?q"], depth=3, nh=2, clone=True, popts='OptsOf("lax_host")')
    mod = fam.write(run.scratch)
    S, M, st = run.tlc_replay(mod, fam.name, cfg=mod + ".cfg", replay_args=["--keys", "derived,hostname,port,href", "--spmodes", "late", "--parser", "lax_host"])
    absorb(run, M, S, fam.name)
    run_traces(run, salt=19, parse_only=20)
    run_scan(run, salt=19, setter_pct=50, keep_quick=20000, explore_quick=700000)
    return run.finish("model_checking", "the derived accessors are functions of the primary components in the specification (DerivedG checked by TLC on "
                      "every state); histories of parse / resolve / setter / clone are replayed and IsIPv4, IsIPv6, DecodedPort, Scheme, Query, Fragment, "
                      "OpaquePath, IsSpecialScheme, Href(true) compared after every step; distinct = distinct expected final states")


# --------------------------------------------------------------------------------------------
# C11 / C12 / C13 - SearchParams, synchronisation, independence
# --------------------------------------------------------------------------------------------
def sp_families(run):
    q = run.tier == "quick"
    r = rng(run.seed, "sp")
    names = r.sample(SP_NAMES, 4 if q else 6)
    values = r.sample(SP_VALUES, 3 if q else 4)
    reads = [(o, n) for o in ("get", "getall", "has") for n in names]
    L = filler_letter(run.seed)
    fams = [
        ApiFamily("sp_d2", SP_STARTS, sp_ops=sp_ops(names, values), read_ops=reads, depth=3, invariants=("ListRoundTrip",)),
        ApiFamily("sp_full_d1", SP_STARTS, sp_ops=sp_ops(SP_NAMES, SP_VALUES), read_ops=[(o, n) for o in ("get", "getall", "has") for n in SP_NAMES], depth=2,
                  invariants=("ListRoundTrip",)),
        ApiFamily("sp_closure", ["http://h/?b=2&a=1&b=3", "x:o?a=1"], sp_ops=sp_ops(names[:3], values[:2], with_iter=False), mode="closure", invariants=("ListRoundTrip",)),
    ]
    # duplicates whose first (or a later) occurrence already holds the value that is set: Set must still drop the other occurrences
    fams.append(ApiFamily("sp_set_same", ["http://h/?a=1&b=2&a=3&a=1", "x:o?k=&k=v&k=", "http://h/?a=%31&a=2"],
                          sp_ops=[("set", "a", "1"), ("set", "a", "3"), ("set", "k", ""), ("set", "k", "v"), ("set", "b", "2"), ("append", "a", "1"), ("append", "k", ""), ("delete", "b", "")],
                          read_ops=[("getall", "a"), ("getall", "k"), ("get", "a")], depth=3, invariants=("ListRoundTrip",)))
    if not q:   # three operations deep over a seed-chosen sub-alphabet (duplicate names arise from the starts and from append)
        fams.append(ApiFamily("sp_d3_sub", SP_STARTS, sp_ops=sp_ops(names[:3], values[:2]), read_ops=[(o, n) for o in ("get", "getall", "has") for n in names[:3]], depth=4,
                              invariants=("ListRoundTrip",), maxlist=8))
    return fams


def check_c11(run):
    run.build_harness()
    run.selftest()
    fams = sp_families(run)
    # pinned reproducer of finding F03 (re-run on every invocation) and the law on delimiter-free lists
    # narrow-deep: long lists with duplicate names (sort stability only shows beyond a dozen pairs)
    r_ = rng(run.seed, "longsort")
    longq = []
    for n_ in (13, 17, 24, 31):
        names_ = ["c", "b", "a"][:2 + n_ % 2]
        longq.append("http://h/?" + "&".join("%s=%d" % (names_[(i * 7 + r_.randrange(2)) % len(names_)], i) for i in range(n_)))
    fams.append(ApiFamily("sp_long_sort", longq, sp_ops=[("sort", "", ""), ("sortabs", "", ""), ("append", "b", "x"), ("set", "a", "y"), ("delete", "c", "")],
                          read_ops=[("getall", "a"), ("getall", "b")], depth=3, maxlist=40))
    fams.append(ApiFamily("sp_pinned_F03", ["http://h/p"], sp_ops=[("append", "a&b", "c=d"), ("append", "a", "1 1"), ("append", "x", "1+1")], depth=2, with_law=True))
    for f in fams:
        f.with_law = True
    run_api_families(run, fams, keys="href,query,search")
    # urlencoded parsing of query strings: every query over the delimiter alphabet, list read back through the snapshot
    import itertools
    L = filler_letter(run.seed)
    alpha = [L, "=", "&", "+", "%", "4", "1", "2", "B", "\u00e9", "\udcff", "\udc80"]
    n = 3 if run.tier == "quick" else 4
    starts = ["http://h/?" + "".join(w) for k in range(0, n + 1) for w in itertools.product(alpha, repeat=k)]
    deep = ["x:o?" + "".join(w) for k in range(0, 7 if run.tier == "quick" else 9) for w in itertools.product("a=&", repeat=k)]
    # escaped bytes that are not valid UTF-8 after decoding, alone and in RUNS (one U+FFFD per byte, truncated and over-long sequences, a valid
    # two-byte sequence next to them): raw invalid bytes never reach the list parser (the URL parser replaces them first), escapes do
    toks = ["%FF", "%80", "%E2%82", "%C3%A9", "%C3", "a", "=", "&"]
    esc = ["http://h/?" + "".join(w) for k in range(1, 4 if run.tier == "quick" else 5) for w in itertools.product(toks, repeat=k)]
    # ESCAPED delimiters (%3D %26 %2B %25 %20 in either hex case) next to literal ones: splitting at '&' and at the first '=' happens on the raw
    # text, before any decoding - an escaped '=' or '&' belongs to the name / value it stands in
    dtoks = ["%3D", "%3d", "%26", "%2B", "%25", "%20", "=", "&", "+", "k"]
    escd = ["http://h/?" + "".join(w) for k in range(1, 4 if run.tier == "quick" else 5) for w in itertools.product(dtoks, repeat=k)]
    run_api_families(run, [ApiFamily("formparse", starts, depth=1, with_law=True), ApiFamily("formparse_deep", deep, depth=1, with_law=True),
                           ApiFamily("formparse_bytes", esc, depth=1, with_law=True), ApiFamily("formparse_escdelims", escd, depth=1, with_law=True)],
                     keys="href,query,search", spmodes="early")
    run.assumptions += ["invalid UTF-8 bytes in a stored name/value count as U+FFFD, one per byte (only bytes 0x80 and 0xFF are generated, where Go's per-byte "
                        "rule and the standard's maximal-subpart rule agree)",
                        "the library's serializer is modelled as the named deviation ImplQueryEscape (query percent-encode set, space -> '+'); its bytes are "
                        "not compared with the standard's serializer - the codec law parse(serialize(list)) = list is what C11 demands"]
    return run.finish("model_checking", "list machine: closure and bounded trees over append/delete/set/sort/sortAbsolute with delimiter-bearing names and "
                      "values, readers get/getAll/has in every state, lists parsed from every query over the delimiter alphabet; stored list "
                      "(snapshot hook), reader results, Href and the codec law on the real code compared after every step in both handle modes")


def check_c12(run):
    run.build_harness()
    run.selftest()
    q = run.tier == "quick"
    r = rng(run.seed, "c12")
    names = r.sample(SP_NAMES, 3)
    values = r.sample(SP_VALUES, 2)
    setters = [("search", v) for v in SETTER_VALUES["search"]] + [("hash", ""), ("hash", "f"), ("protocol", "https"), ("protocol", "y"), ("pathname", "/n"), ("host", "h9")]
    starts = ["http://h/?b=2&a=1", "x://h/p?a=1#f", "m:o  ?q", "m:o  #f", "http://h/p", "file:///d?x"]
    fams = [
        ApiFamily("sync_d3", starts, setter_ops=setters, sp_ops=sp_ops(names, values), depth=3 if q else 4, properties=("WriteThrough",)),
        ApiFamily("sync_closure", starts[:3], setter_ops=r.sample(setters, 6), sp_ops=sp_ops(names[:2], values[:2], with_iter=False), mode="closure", properties=("WriteThrough",)),
    ]
    # SetSearchParams (argument: fresh value / detached copy / another URL's live list / its own list) and mutation of a detached copy,
    # interleaved with list mutations and SetSearch on two URLs
    XFER = [("fresh0", "", ""), ("fresh", names[0], values[0]), ("copy", "c", "d"), ("live", "", "")]
    DET = [("append", "x", "y"), ("delete", "a", ""), ("set", "a", "9"), ("sort", "", "")]
    fams.append(ApiFamily("xfer_d3", ["http://h/?b=2&a=1", "x:o?a=1&&c", "http://h/p", "http://h/p?"], setter_ops=[("search", ""), ("search", "z=1&y"), ("hash", "f")],
                          sp_ops=[("append", "k", "v"), ("delete", "a", ""), ("sort", "", "")], xfer_ops=XFER, det_ops=DET, refs=["?r=1", "x"],
                          depth=3 if q else 5, nh=2, clone=True, properties=("WriteThrough", "Independence")))
    run_api_families(run, fams, keys="href,query,search,pathname,hash")
    run_traces(run, salt=12, parse_only=10)
    return run.finish("model_checking", "all interleavings (bounded trees and closure) of SearchParams mutations, SetSearch and the other setters from "
                      "special / non-special / opaque starts; after every step Href, Query, Search and the stored list are compared with the specification, "
                      "with the SearchParams handle taken before the first call (early) and afresh (late)")


def check_c13(run):
    run.build_harness()
    run.selftest()
    q = run.tier == "quick"
    r = rng(run.seed, "c13")
    names = r.sample(SP_NAMES, 2) + [r.choice(["q", "b", "x", "a"])]     # always one name that occurs in a start URL (in-place Set)
    values = r.sample(SP_VALUES, 2)
    # one seed-chosen value per setter, plus the values that write a shared structure IN PLACE (clearing query / fragment strips
    # the trailing spaces of an opaque path; an empty pathname / host rewrites the path / host)
    setters = sub_ops(run.seed, "c13", 1)
    for extra in [("hash", ""), ("search", ""), ("search", "x=1"), ("pathname", "/n"), ("host", "h9")]:
        if extra not in setters:
            setters.append(extra)
    starts = ["http://u:p@h:8/a/b?q=1#f", "x://h/a?b=2", "file:///C:/d?x", "m:o?a=1", "m:o  #f", "m:o  ?q#f", "http://h/p?#", "x://@h?"]   # incl. empty-but-present components
    fams = [
        ApiFamily("indep_d3", starts, setter_ops=setters, sp_ops=sp_ops(names, values, with_sort=False) + [("sort", "", ""), ("iterappend", "", "z"), ("iterfirst", "", "w")], refs=["x", "?n=1", "#g", "//o/p?r", "http:n", "http:#k", "file:n", "?n=1#g"],     # incl. references that repeat the base's scheme and are otherwise relative
                  depth=3 if q else 4, nh=3, clone=True, properties=("Independence",),
                  xfer_ops=[("copy", "c", "d"), ("live", "", ""), ("fresh", "n", "1")], det_ops=[("append", "x", "y"), ("sort", "", "")]),
    ]
    run_api_families(run, fams, keys="all")
    run_traces(run, salt=13, parse_only=10)
    return run.finish("model_checking", "three handles: parse, resolve, clone, then any setter / SearchParams mutation on either side; after every call "
                      "ALL live handles are projected (19 getters + stored parameter list) and compared with the specification, in which an action changes "
                      "only the handle it acts on (Independence action property)")


def replay_file(prop, path):
    print("replay of %s: see 'mismatch' in the file; re-run the check to re-execute" % path)
    return 0


# --------------------------------------------------------------------------------------------
# composite-event checks (T-mode on TLC-enumerated inputs): C06, C15
# --------------------------------------------------------------------------------------------
def describe_event(ev, verdicts):
    base = (" base=%r" % from_cps(ev["bs"][0])) if ev.get("bs") else ""
    extra = ""
    if ev.get("opt"):
        extra = " option=%s" % ev["opt"]
    if ev.get("prof"):
        extra = " profile=%s" % ev["prof"]
    if ev.get("sp"):
        extra += " spellings=%r" % [from_cps(x) for x in ev["sp"][:4]]
    return "%s event%s input=%r%s: %s" % (ev.get("k"), extra, from_cps(ev.get("in", [])), base, "; ".join(verdicts))


def absorb_events(run, bad, family):
    seen_known = run.__dict__.setdefault("_seen_known", set())
    nviol = 0
    tally = run.coverage_notes.setdefault("not_ok_classes", {})
    for ev, verdicts in bad:
        rest = []
        for v in verdicts:
            if v.startswith("note:"):
                # information about drift between specification and code on something no listed property demands: counted, never a verdict
                d = run.coverage_notes.setdefault("spec_drift_notes", {}).setdefault(v[:140], {"count": 0, "examples": []})
                d["count"] += 1
                if len(d["examples"]) < 8:
                    d["examples"].append(describe_event(ev, [])[:160])
                continue
            key = "%s|%s|%s" % (ev.get("k"), ev.get("opt") or ev.get("prof") or ev.get("call") or "", v[:90])
            tally[key] = tally.get(key, 0) + 1
            kf = findings.match(run.prop, {"what": "event", "event": ev, "verdict": v})
            if kf:
                if kf["id"] not in seen_known:
                    seen_known.add(kf["id"])
                    run.known.append("%s: %s [e.g. %s]" % (kf["id"], kf["summary"], describe_event(ev, [v])))
            else:
                rest.append(v)
        if rest:
            nviol += 1
            if nviol <= 10:
                run.violation(describe_event(ev, rest), {"property": run.prop, "kind": "event", "family": family, "event": ev, "verdicts": rest})
    if nviol:
        run.coverage_notes.setdefault("events_not_ok_by_family", {})[family] = nviol


def run_event_families(run, fams, kind):
    for fam in fams:
        mod = fam.write(run.scratch)
        bad, n = run.tlc_events(mod, fam.name, kind, cfg=mod + ".cfg")
        if len(run.samples) < 12:
            run.samples.append("[%s/%s] %d composite events recorded from the real code, e.g. inputs of family alphabet %r" % (fam.name, kind, n, fam.alphabet if isinstance(fam.alphabet, str) else "code points"))
        absorb_events(run, bad, fam.name)
        run.distinct += n


def check_c06(run):
    run.build_harness()
    run.selftest()
    q = run.tier == "quick"
    # design: the laws are theorems of the specification (TLC, struct family x bases)
    fams = c01_families(run)
    design = [f for f in fams if f.name == "struct"][0]
    design.maxlen = 3
    design.invariants += ["LawSelf", "LawEmpty", "LawHash", "LawQuery", "LawScheme", "LawOpaqueBase"]
    mod = design.write(run.scratch, emit=False)
    run.tlc(mod, cfg=mod + ".cfg", timeout=600)
    run.samples.append("[design] LawSelf/LawEmpty/LawHash/LawQuery/LawScheme/LawOpaqueBase are TLC invariants of the specification on family struct (N=3) x %d bases" % len(design.bases))
    # binding: composite events on the real code for every (input, base) of the families
    keep = ("struct", "file", "path", "creds") if q else ("struct", "file", "path", "creds", "host", "dotdeep", "class", "ws")
    evf = [f for f in c01_families(run) if f.name in keep]
    for f in evf:
        if q and f.name in ("struct", "path"):
            f.maxlen = 3
        if not q and f.name in ("struct", "path"):
            f.maxlen = 4       # a law event carries ~25 results (~30 KB): length 5 would be several GB of events
    run_event_families(run, evf, "law")
    run.assumptions.append("the laws are evaluated by TLC on values observed from the real code only (no oracle involved), after TLC has established them as invariants of the specification")
    return run.finish("model_checking", "for every (input, base) of the families: the three entry points, Href(u) against 7 bases, '', '#f', '?q' and 12 scheme-less "
                      "references against u are executed on the real code and recorded as one composite event; TLC evaluates the C06 relations on the observed values; "
                      "distinct = number of composite events (distinct (input, base) pairs)")


def check_c15(run):
    run.build_harness()
    run.selftest()
    q = run.tier == "quick"
    for cfg in ("Diag_ok",):
        out, st = run.tlc("Diag", cfg=cfg + ".cfg", timeout=300)
    # the refutation with a call site that records a fatal event and carries on must be found (non-vacuity of the model)
    p = subprocess.run(run.tlc_cmd("Diag", "Diag_bad.cfg"), cwd=run.scratch, capture_output=True, text=True, timeout=300)
    if "Invariant Inv is violated" not in p.stdout:
        raise Infra("Diag_bad.cfg: TLC no longer refutes the laws when a fatal event does not stop the run (vacuous model?)")
    run.samples.append("[design] Diag.tla: C15 relations hold for all 1,555+ event sequences when a fatal event always stops; refuted (as expected) otherwise")
    keep = ("struct", "host", "path", "file", "creds", "class", "ws", "brackets") if q else None
    evf = [f for f in c01_families(run) if keep is None or f.name in keep]
    for f in evf:
        if q and f.name in ("struct",):
            f.maxlen = 3
    run_event_families(run, evf, "diag")
    run.assumptions += ["weak reading: an error returned in fail-on-validation-error mode may itself be flagged non-fatal (it is the validation error); 'marked as a failure' is demanded of errors returned by the default and reporting parsers",
                        "which validation errors the standard defines is not demanded (C15 is about internal consistency)"]
    return run.finish("model_checking", "Diag.tla (choke-point design) model-checked for all event sequences up to length 5; for every (input, base) of the families the four "
                      "configurations are run on the real code and recorded as one composite event, TLC evaluates the C15 relations on the observed outcomes")


# --------------------------------------------------------------------------------------------
# host sub-model: C07, C08, C09
# --------------------------------------------------------------------------------------------
def run_host_families(run, fams, keys="std"):
    for fam in fams:
        mod = fam.write(run.scratch)
        S, M, st = run.tlc_replay(mod, fam.name, cfg=mod + ".cfg", replay_args=["--keys", keys, "--entries", "Parse"])
        absorb(run, M, S, fam.name)


def check_c07(run):
    run.build_harness()
    run.selftest()
    q = run.tier == "quick"
    D, L = filler_digit(run.seed), filler_letter(run.seed)
    frames = [("http://", "/"), ("ws://", "/p"), ("file://", "/"), ("x://", "/")]
    fams = [
        HostFamily("v4text", alphabet="0178" + D + "xXaf" + L + ".-+", maxlen=4 if q else 5, frames=frames, invariants=["V4Inv"]),
        HostFamily("v4deep", alphabet="01.", maxlen=9 if q else 11, frames=frames[:1] + frames[3:], invariants=["V4Inv"]),
        HostFamily("v4radix", alphabet="0x8f.", maxlen=6 if q else 8, frames=frames[:1], invariants=["V4Inv"]),
        HostFamily("v4range", alphabet="2569.", maxlen=6 if q else 7, frames=frames[:1], invariants=["V4Inv"]),
    ]
    # numbers at the edge of the machine word: 64-bit overflow in each radix followed by valid / invalid characters
    big = ["0x" + "f" * 15, "0X" + "F" * 16, "9" * 18, "922337203685477580", "0" + "7" * 21, "01" + "7" * 21]
    fams.append(HostFamily("v4overflow", alphabet="f97~.g", maxlen=3 if q else 4, frames=[("http://" + b, "/") for b in big] + [("http://a." + big[0], "/"), ("file://" + big[2], "/")]))
    run_host_families(run, fams, keys="std,ipv4")
    if not q:
        run_parse_families(run, [f for f in c01_families(run) if f.name in ("host", "ipv4deep")], keys="std,ipv4")
    run.assumptions.append("ASCII host strings over the listed alphabets (digits, x, X, a-f, a filler letter, '.', '+', '-'); other characters through C01's class family")
    run_scan(run, salt=7, vocab="v4", tags=["C01"], explore_quick=60000, keep_quick=30000, explore_thorough=2000000, keep_thorough=300000)
    return run.finish("model_checking", "every host string over the alphabet up to the bound, one TLC state each; TLC checks on the specification that a host is treated as IPv4 "
                      "exactly when its last non-empty label is a number in the standard's sense (independent formulation), that accepted addresses are dotted-decimal "
                      "fixed points with the expected value, and that opaque hosts are never reinterpreted; each string is replayed in http, ws, file and a non-special URL; "
                      "distinct = distinct expected outcomes")


def check_c08(run):
    run.build_harness()
    run.selftest()
    q = run.tier == "quick"
    frames = [("http://", "/"), ("x://", "/")]
    fams = [
        HostFamily("v6text", alphabet="01fF:.g5", maxlen=4 if q else 6, hpre="", hsuf="", frames=[("http://[", "]/"), ("x://[", "]/")], invariants=["V6TextInv"]),
        HostFamily("v6deep", alphabet="1:.", maxlen=9 if q else 11, frames=[("http://[", "]/")], invariants=["V6TextInv"]),
        HostFamily("v6zero", alphabet="0:1", maxlen=9 if q else 11, frames=[("http://[", "]/")], invariants=["V6TextInv"]),
        HostFamily("v6val", mode="v6val", pieces=(0, 1, 0xabcd) if run.seed % 2 else (0, 0x10, 0xffff), frames=frames if not q else frames[:1],
                   invariants=["V6ValInv", "V6SpellInv"]),
        # the dotted-decimal tail at the 255 / 256 boundary and beyond (every octet position; numbers of up to four digits, leading zeros)
        HostFamily("v6tail_last", alphabet="02569", maxlen=4, minlen=1, hpre="::1.2.3.", hsuf="", frames=[("http://[", "]/"), ("x://[", "]/")], invariants=["V6TextInv"]),
        HostFamily("v6tail_first", alphabet="02569", maxlen=4, minlen=1, hpre="1::", hsuf=".2.3.4", frames=[("http://[", "]/")], invariants=["V6TextInv"]),
        # a dotted part of 19-20 digits: its value passes 2^63 / 2^64 (a part is out of range from its fourth digit on, however long it gets)
        HostFamily("v6tail_wrap64", alphabet="01567", maxlen=2, minlen=2, hpre="::1.2.3.184467440737095516", hsuf="", frames=[("http://[", "]/"), ("x://[ffff:", "]")], invariants=["V6TextInv"]),
        HostFamily("v6tail_wrap63", alphabet="01789", maxlen=2, minlen=2, hpre="::127.0.92233720368547758", hsuf=".1", frames=[("http://[", "]/")], invariants=["V6TextInv"]),
        # addresses that are (nearly) full before a '::' or further pieces arrive: the piece count at the '::' and at the end
        HostFamily("v6full6", alphabet="1:0", maxlen=5, minlen=1, hpre="1:1:1:1:1:1:", hsuf="", frames=[("http://[", "]/"), ("x://[", "]/")], invariants=["V6TextInv"]),
        HostFamily("v6full8", alphabet=":1", maxlen=3 if q else 4, minlen=0, hpre="1:2:3:4:5:6:7:8", hsuf="", frames=[("http://[", "]/")], invariants=["V6TextInv"]),
        HostFamily("v6full7c", alphabet=":1", maxlen=3 if q else 4, minlen=0, hpre="::2:3:4:5:6:7", hsuf="", frames=[("http://[", "]/")], invariants=["V6TextInv"]),
        HostFamily("v6tail_mid", alphabet="02569.", maxlen=4 if q else 5, minlen=1, hpre="1:2:3:4:5:6:1.", hsuf=".4", frames=[("http://[", "]/")], invariants=["V6TextInv"]),
    ]
    run_host_families(run, fams, keys="std,ipv6")
    run_parse_families(run, [f for f in c01_families(run) if f.name in ("brackets", "ipv6deep")], keys="std,ipv6")
    run.assumptions.append("the 2^128 address values are covered by zero-run PATTERNS exhaustively (all 3^8 addresses over three piece values chosen by seed), not by value")
    run_scan(run, salt=8, vocab="v6", tags=["C01"], explore_quick=60000, keep_quick=30000, explore_thorough=2000000, keep_thorough=300000)
    return run.finish("model_checking", "text side: every body up to the bound over {0 1 f F : . g 5} and two narrow-deep alphabets between one bracket pair, and every bracket "
                      "arrangement over {[ ] : 1}; value side: all 3^8 addresses over three piece values with every alternative spelling (upper case, leading zeros, "
                      "uncompressed, every legal '::' placement, dotted tail). TLC checks serializer = independent canonical text, parse(serialize(a)) = a, all spellings "
                      "parse to a; every text replayed in a special and a non-special URL")


C09_BASES = ["example.com", "a-b.c", "localhost", "x_y.z", "a.b.", "\u00fcber.de", "fa\u00df.de", "\uff21\uff22.com", "a\u00adb.c", "\u4e2d.cn",
             "xn--bcher-kva.de", "\u0131.com", "a\u200db.c", "\u05d0.il", "1.2.3.4", "a.1", "\uff11.\uff12.3.4", "\u212a.com", "a\u3002b"]
# ACE labels the IDNA mapping REJECTS (invalid punycode; a valid label next to an STD3-disallowed character), first and last label: every spelling
# of the prefix (Xn--, xN--, %58n--, x%4E--) must be rejected alike (the ASCII fallback of domain-to-ASCII must not depend on the prefix's case)
C09_ACE_BASES = ["xn--pokxncvks.a", "xn--a.pt", "xn--nxasmq6b.a_b", "a.xn--pokxncvks", "xn--.com"]     # at most 16 characters: a class with 3 varied code points of a longer host exhausts TLC's heap


def check_c09(run):
    run.build_harness()
    run.selftest()
    q = run.tier == "quick"
    L = filler_letter(run.seed)
    r = rng(run.seed, "c09")
    # exact part: pure-ASCII hosts (ACE labels are skipped: IDNA taken as given)
    fams = [
        HostFamily("domtext", alphabet=L + L.upper() + "xn-._%412eZ", maxlen=4 if q else 5, frames=[("https://", "/"), ("file://", "/p")]),
        HostFamily("domforbidden", alphabet=L + " ^|<>%257f\x7f\x00", maxlen=3 if q else 4, frames=[("https://", "/")]),
        # around "localhost": only exactly that host becomes the empty host of a file URL - not with a root label, a further label, a prefix, ...
        HostFamily("domlocalhost", alphabet=".%2eEaL", maxlen=3, hpre="localhost", frames=[("file://", "/x"), ("https://", "/"), ("file://a", "/")]),
        HostFamily("domlocalhost2", alphabet=".%2eaL", maxlen=2, hsuf="localhost", frames=[("file://", "/x")]),
    ]
    run_host_families(run, fams, keys="std")
    # relational part: spelling classes, including non-ASCII labels (no IDNA table needed for a relation)
    bases = (C09_BASES if not q else r.sample(C09_BASES, 9) + ["localhost"]) + (C09_ACE_BASES if not q else C09_ACE_BASES[:3] + r.sample(C09_ACE_BASES[3:], 1))
    cls = HostFamily("domclass", mode="class", basehosts=bases, maxvar=2 if q else 3, frames=[("https://", "/"), ("file://", "/x")], invariants=["ClassInv"])
    run_host_families(run, [cls], keys="std")
    # the pipeline AROUND ToASCII on mapped characters (full-width % / digits / dots, ideographic full stop, soft hyphen, ZWJ, sharp s, ...):
    # every host over a seed-chosen alphabet up to length 3 is parsed by the real code (3 frames); TLC validates each event with the
    # IDNA answer inferred from the log - percent-decoding, forbidden-code-point check and IPv4 recognition after the mapping are exact
    pool = [0xFF05, 0xFF0F, 0xFF1A, 0xFF11, 0xFF0E, 0x3002, 0xAD, 0x200D, 0xFF21, 0xDF, 0x131, 0x2024, 0xFF10, 0xFF58, 0x212A, 0x2260]
    alpha = r.sample(pool, 6 if q else 9) + [ord("a"), ord("."), ord("1"), ord("%")]
    bad, nev = run.record_and_validate(0, seed_salt=9, host_alphabet=alpha, host_len=3)
    mine = [(dict(ev, k="trace", **{"in": ev.get("a", [])}), [v for v in vs if not v.startswith("C03")]) for ev, vs in bad]
    absorb_events(run, [(e, v) for e, v in mine if v], "idna-pipeline")
    run.samples.append("[T-mode] %d parse events for every host over a %d-character alphabet of mapped / ignored / full-width characters, validated by TLC with the IDNA answer inferred from the log" % (nev, len(alpha)))
    run.assumptions.append("IDNA mapping of non-ASCII / ACE labels is taken as given; for them only the relation (same result for every spelling) and the output shape are checked")
    run_scan(run, salt=9, vocab="dom", tags=["C01"], explore_quick=60000, keep_quick=30000, explore_thorough=2000000, keep_thorough=300000)
    return run.finish("model_checking", "exact part: every pure-ASCII host over the alphabet (letters in both cases, digits, '-', '.', '_', '%41', '%2e', forbidden code points) replayed "
                      "in https and file URLs against the specification; relational part: for every base host (ASCII, mapped, ignored, bidi, joiner, full-width, ACE) TLC generates all "
                      "spellings with up to 2-3 varied code points (case flips, whole-code-point percent-encoding in either hex case) and the real hostnames of a class must coincide, "
                      "be ASCII-only, lower case, forbidden-free, with localhost -> empty host for file")


# --------------------------------------------------------------------------------------------
# C10 - percent-encode sets and codec laws
# --------------------------------------------------------------------------------------------
def check_c10(run):
    run.build_harness()
    run.selftest()
    q = run.tier == "quick"
    r = rng(run.seed, "c10")
    U2, U3, U4 = r.choice([0xE9, 0xDF, 0x3A9]), r.choice([0x20AC, 0x4E2D, 0xFFFD]), r.choice([0x1F600, 0x10348, 0x10FFFF])
    member = r.choice([0x20, 0x22, 0x3C])
    alphabet = [37, 52, r.choice([0x41, 0x66, 0x46]), 0x67, member, 0x7E, U2, U3, U4, 0x7F]
    sets = ["SetC0", "SetFragment", "SetQuery", "SetSpecialQuery", "SetPath", "SetUserinfo", "SetAdd(SetPath, {37})", "SetDel(SetQuery, {34})", "SetAdd(SetC0, {124})",
            "SetAdd(SetUserinfo, {37, 43})"]
    bits = [[0x7C], [0x25], [0x41, 0x7E], [0x22], [0x20]]
    fams = [
        CodecFamily("sets", "sets", invariants=["TablesMatchStandard"]),
        CodecFamily("derive", "derive", depth=2 if q else 3, derive_bits=bits if not q else bits[:4], invariants=["NamedUntouched"], properties=["CopyOnDerive"]),
        CodecFamily("codec", "codec", alphabet=alphabet, maxlen=3 if q else 4, codec_sets=sets, invariants=["CodecLaws", "SinglePctNeutral"]),
        # codec_pct: the last symbol is a non-ASCII code point whose LOW BYTE is an ASCII hex digit (4, A, b, 1) - a look-ahead after '%' must compare code points
        CodecFamily("codec_pct", "codec", alphabet=[37, 50, 53, 0x42, 0x67, U2, r.choice([0x0434, 0x0141, 0x0562, 0x4E31])], maxlen=5 if q else 7, codec_sets=["SetPath", "SetAdd(SetPath, {37})", "SetC0"], invariants=["CodecLaws", "SinglePctNeutral"]),
    ]
    for fam in fams:
        mod = fam.write(run.scratch)
        S, M, st = run.tlc_replay(mod, fam.name, cfg=mod + ".cfg", tool="codec")
        absorb(run, M, S, fam.name)
    run.coverage_notes["exhaustive_set_comparison"] = "all 0x110000 code points x 6 named sets through RuneShouldBeEncoded, all 256 bytes through ByteShouldBeEncoded"
    return run.finish("model_checking", "sets: the specification's tables (checked by TLC against the standard's explicit lists) compared with the real sets on ALL 0x110000 code points; "
                      "derive: every Set/Clear derivation sequence up to the depth over the six named sets and their derivatives, every registry entry fingerprinted after every step; "
                      "codec: every string up to the bound over {%, hex digit, non-hex letter, member, non-member, 2-/3-/4-byte scalar, DEL} x 10 named and derived sets - the laws are "
                      "TLC invariants of the specification and the encodings/decodings are replayed byte-exactly")


# --------------------------------------------------------------------------------------------
# C14 - concurrent read-only use
# --------------------------------------------------------------------------------------------
def check_c14(run):
    run.build_harness()
    race = run.build_harness(race=True)
    q = run.tier == "quick"
    # design: all interleavings of the access programs
    out, st = run.tlc("Conc", cfg="Conc_strict.cfg", timeout=300)
    p = subprocess.run(run.tlc_cmd("Conc", "Conc_lazy.cfg"), cwd=run.scratch, capture_output=True, text=True, timeout=300)
    if "Invariant NoRace is violated" not in p.stdout:
        raise Infra("Conc_lazy.cfg: TLC no longer finds the resolve || resolve race with the LazyInitOnClone deviation (vacuous model?)")
    run.samples.append("[design] Conc.tla: NoRace, TablesFrozen, ResultsAsAlone hold on all %d states of 3 goroutines x {resolve, getter, parse, canon}; "
                       "with the LazyInitOnClone deviation TLC returns the resolve || resolve counterexample" % st["distinct"])
    extra = []
    if not q:
        fam = [f for f in c01_families(run) if f.name == "struct"][0]
        fam.maxlen, fam.bases, fam.nobase = 3, [], True
        mod = fam.write(run.scratch)
        cmd = run.tlc_cmd(mod, mod + ".cfg")
        pf = os.path.join(run.scratch, "conc_inputs.txt")
        with open(pf, "w") as f:
            subprocess.run(cmd, cwd=run.scratch, stdout=f, stderr=subprocess.STDOUT, timeout=600)
        extra = ["--inputs", pf]
    nrace = 0
    for i in range(2 if q else 6):
        ws = os.path.join(run.scratch, "ws%d.ndjson" % i)
        env = dict(os.environ, GORACE="exitcode=66 halt_on_error=0 history_size=2")
        try:
            p = subprocess.run([race, "conc", "--seed", str(run.seed * 100 + i), "--out", ws, "--goroutines", "8" if q else "16", "--rounds", "24" if q else "60"] + (extra if i == 0 else []),
                               cwd=run.scratch, capture_output=True, text=True, timeout=900, env=env)
        except subprocess.TimeoutExpired:
            raise Infra("conc driver timeout")
        m = None
        for line in p.stdout.splitlines():
            if line.startswith("CONC ws_events="):
                m = line
        if "DATA RACE" in p.stderr:
            nrace += 1
            if nrace <= 3:
                rep = p.stderr[p.stderr.index("WARNING: DATA RACE"):][:6000]
                run.violation("the Go race detector reports a data race between concurrent read-only calls: " + " | ".join(l.strip() for l in rep.splitlines()[1:8]),
                              {"property": "C14", "kind": "race", "seed": run.seed * 100 + i, "report": rep}, "race")
        elif p.returncode != 0 or m is None:
            raise Infra("conc driver failed (exit %d): %s %s" % (p.returncode, p.stdout[-1500:], p.stderr[-1500:]))
        if "CONC-MISMATCH" in p.stdout or "CONC-TABLES-CHANGED" in p.stdout:
            what = "a package-level table was written after the package's initialisation: " if "CONC-TABLES-CHANGED" in p.stdout else "a concurrent call returned something else than when run alone: "
            run.violation(what + p.stdout[:600], {"property": "C14", "kind": "result", "seed": run.seed * 100 + i, "output": p.stdout[:5000]}, "res")
        if m:
            import re as _re
            mm = _re.search(r"ws_events=(\d+) concurrent_calls=(\d+)", m)
            run.executions += int(mm.group(2))
            run.distinct += int(mm.group(1))
            run.coverage_notes["concurrent_calls_under_race_detector"] = run.coverage_notes.get("concurrent_calls_under_race_detector", 0) + int(mm.group(2))
        if os.path.exists(ws):
            bad = run.validate_events([ws])
            n = sum(1 for _ in open(ws))
            run.validated += n
            absorb_events(run, [(dict(ev, **{"in": ev.get("in", [])}), v) for ev, v in bad], "ws")
    run.samples.append("write-set event: {call: resolve, base: http://example.com/a/b?x=1#f, in: ../c, writes: []}")
    run.assumptions += ["SearchParams() hands out a mutable handle and is not counted as a read (weaker reading)",
                        "the race detector only sees the paths the drivers execute; thorough drives every input of the struct family through the concurrent drivers"]
    return run.finish("model_checking", "Conc.tla explores all interleavings of the shared-memory access programs of the read-only calls; binding: (1) write-set events recorded around every "
                      "read-only call of every driver (shared base record incl. the lazily created parameter list, parser options, package tables - via the snapshot hook) validated by TLC "
                      "against WritesOf(call); (2) goroutine drivers under the Go race detector with results compared with the sequential run; distinct = write-set events")


# --------------------------------------------------------------------------------------------
# C20 - cost grows at most linearly
# --------------------------------------------------------------------------------------------
COST_THRESHOLD = 9.0     # linear families measure 3.8-6.1, quadratic ones 15.6-16.1 (DESIGN.md section 3)


def pump_families(run):
    q = run.tier == "quick"
    d = run.scratch
    with open(os.path.join(d, "P_pump.tla"), "w") as f:
        f.write("---- MODULE P_pump ----\nEXTENDS MC_Pump\n")
        f.write("F_PA == %s\nF_UA == %s\n" % (tla_cps(":/\\?#@.[a1%"), tla_cps(":/\\?#@.[]a1%2& =")))
        f.write("F_Schemes == %s\n" % tla_seqs(["", "http:", "file:", "x:"]))
        f.write("F_Bases == %s\n====\n" % tla_seqs(["http://u:p@h:8/a/b?q#f", "file:///C:/d/e"] if not q else ["http://u:p@h:8/a/b?q#f"]))
    with open(os.path.join(d, "P_pump.cfg"), "w") as f:
        f.write("CONSTANTS\n PAlphabet <- F_PA\n PMax = %d\n UAlphabet <- F_UA\n UMax = %d\n Schemes <- F_Schemes\n BaseStrs <- F_Bases\n"
                "INIT Init\nNEXT Next\nINVARIANT Emit\nINVARIANT PumpWorkLinear\nCHECK_DEADLOCK FALSE\n" % (2 if q else 3, 1 if q else 2))
    out, st = run.tlc("P_pump", cfg="P_pump.cfg", timeout=900)
    reps = {}
    npumps = 0
    for line in out.splitlines():
        if not line.startswith('"'):
            continue
        try:
            o = json.loads(json.loads(line))
        except ValueError:
            continue
        if o.get("t") != "pump":
            continue
        npumps += 1
        key = (json.dumps(o["ctl"], sort_keys=True), tuple(o["u"]), bool(o["b"]))
        if key not in reps or len(o["p"]) < len(reps[key]["p"]):
            reps[key] = o
    return list(reps.values()), npumps, st


def tla_cps(s):
    from .core import tla_set_of_cps
    return tla_set_of_cps(s)


def tla_seqs(ss):
    from .core import tla_set_of_seqs
    return tla_set_of_seqs(ss)


def check_c20(run):
    from .core import cps
    run.build_harness()
    q = run.tier == "quick"
    # design half: the algorithm is linear (work model), on the struct family and on every pump
    fam = [f for f in c01_families(run) if f.name == "struct"][0]
    fam.maxlen = 3 if q else 4
    fam.invariants.append("WorkBound")
    mod = fam.write(run.scratch, emit=False)
    run.tlc(mod, cfg=mod + ".cfg", timeout=600)
    pumps, npumps, st = pump_families(run)
    run.samples.append("[design] WorkBound (work <= 4*len+8) holds on every state of the struct family; %d pumps (cycles of the control-state graph) found, %d distinct (control state, unit) classes" % (npumps, len(pumps)))
    fams = []
    suffixes = ["", "@h/", "/x?q#f", "]/"]
    for i, o in enumerate(pumps):
        for si, sfx in enumerate(suffixes if not q else suffixes[:3]):
            f = {"name": "pump:%s|%s|%s%s" % (from_cps(o["p"]), from_cps(o["u"]), sfx, " base" if o["b"] else ""), "prefix": o["p"], "unit": o["u"], "suffix": cps(sfx),
                 "base": o["b"][0] if o["b"] else [], "op": "parse"}
            if not q:
                # thorough enumerates ~5000 pump classes x 4 suffixes: allocation growth for all of them up to n = 2048 -> 8192, CPU growth
                # (8192 -> 32768 repetitions) for the first suffix of each class; the named / two-phase / API families below get the full measures
                f["maxn"] = 2048
                f["cpun"] = 8192 if si == 0 else -1
            fams.append(f)
    # families named by the property text, and API-level ones
    named = [("many-at", "http://", "@", "h/"), ("long-user", "http://", "u", "@h/"), ("long-password", "http://u:", "p", "@h/"), ("long-opaque-host", "x://", "h", "/"),
             ("long-domain", "http://", "a.", "b/"), ("many-segments", "http://h/", "a/", ""), ("many-slashes", "http://h/", "/", ""), ("dot-segments", "http://h/", "a/../", ""),
             ("single-dots", "http://h/", "./", ""), ("backslashes", "http://h/", "\\", ""), ("long-query", "http://h/?", "a", ""), ("long-fragment", "http://h/#", "a", ""),
             ("many-params", "http://h/?", "a=b&", ""), ("long-opaque-path", "x:", "a", ""), ("pct-path", "http://h/", "%41", ""), ("nonascii-path", "http://h/", "\u00e9", ""),
             ("long-scheme", "", "a", "://h/"), ("spaces-lead", "", " ", "http://h/"), ("tabs", "http://h/", "\t", "a"), ("port-digits", "http://h:", "0", "1/"),
             ("ipv4-parts", "http://", "1.", "1/"), ("ipv6-colons", "http://[", "1:", "1]/"), ("file-drive", "file:///", "C|/", ""), ("many-hashes", "http://h/#", "#", ""),
             ("many-questions", "http://h/?", "?", ""), ("nonspecial-segments", "x://h/", "a/", ""), ("relative-dots", "", "../", "x")]
    for name, p, u, s in named:
        fams.append({"name": name, "prefix": cps(p), "unit": cps(u), "suffix": cps(s), "base": cps("http://b/c/d") if name == "relative-dots" else [], "op": "parse"})
    # two-phase families: grow a structure with one unit, then shrink / rescan it with another (also as long base + long reference)
    for pre in ("http://h/", "file:///", "x://h/"):
        for u1 in ("a/", "/", "a/b/", "./a/"):
            for u2 in ("../", "..\\", "%2e%2e/", "./", "../a/", "a/../../"):
                if u2 == "..\\" and pre.startswith("x"):
                    continue
                fams.append({"name": "two-phase:%s|%s|%s" % (pre, u1, u2), "prefix": cps(pre), "unit": cps(u1), "unit2": cps(u2), "suffix": [], "base": [], "op": "parse"})
                fams.append({"name": "base+ref:%s|%s|%s" % (pre, u1, u2), "prefix": [], "unit": cps(u2), "suffix": cps("x"), "base": cps(pre), "baseunit": cps(u1), "op": "parse"})
    for pre, u1, u2 in [("http://", "a", "@"), ("http://", "@", "a"), ("http://", "a:", "@"), ("http://h/?", "a=b&", "a=c&"), ("http://", "a.", "1."), ("http://[", "1:", "::")]:
        fams.append({"name": "two-phase:%s|%s|%s" % (pre, u1, u2), "prefix": cps(pre), "unit": cps(u1), "unit2": cps(u2), "suffix": cps("h/"), "base": [], "op": "parse"})
    for name, p, u, s in [("sp-many-params", "http://h/?", "a=b&", ""), ("sp-long-value", "http://h/?a=", "v", ""), ("sp-two-names", "http://h/?", "a=1&b=2&", ""),
                          ("sp-dups-then-other", "http://h/?c=0&", "a=1&", "&b=2"), ("sp-escaped-names", "http://h/?", "%61=1&b=%32&", "")]:
        fams.append({"name": name, "prefix": cps(p), "unit": cps(u), "suffix": cps(s), "base": [], "op": "searchparams"})
        if name in ("sp-two-names", "sp-dups-then-other"):
            fams[-1]["cpun"] = 32768     # in-place list surgery moves 32-byte pairs: quadratic element moves only reach the CPU floor beyond ~200 k pairs
    for name, u in [("set-plain", "a"), ("set-slashes", "a/"), ("set-at", "@"), ("set-pct", "%41"), ("set-amp", "a=b&")]:
        fams.append({"name": name, "prefix": [], "unit": cps(u), "suffix": [], "base": [], "op": "setters"})
    for prof in ("WhatWg", "WhatWgSortQuery", "GoogleSafeBrowsing", "Semantic"):
        for name, p, u, s in [("segments", "http://h/", "a/", ""), ("params", "http://h/?", "b=a&", ""), ("nested-escapes", "http://h/", "%2541", ""), ("slashes", "http://h/", "/", "")]:
            fams.append({"name": "canon-%s-%s" % (prof, name), "prefix": cps(p), "unit": cps(u), "suffix": cps(s), "base": [], "op": "canon:" + prof})
    # raw invalid bytes (only the profiles accept them) and other profile-specific families
    for prof in ("GoogleSafeBrowsing", "Semantic"):
        for name, p, u, s in [("invalid-host", "http://", "\udcff", "/"), ("invalid-path", "http://h/", "\udcff", ""), ("host-dots", "http://", ".", "h/"), ("host-pct", "http://", "%41", "/"),
                              ("query-nested", "http://h/?", "a=%2541&", "")]:
            fams.append({"name": "canon-%s-%s" % (prof, name), "prefix": cps(p), "unit": cps(u), "suffix": cps(s), "base": [], "op": "canon:" + prof})
    ff = os.path.join(run.scratch, "cost_families.json")
    json.dump(fams, open(ff, "w"))
    outp = os.path.join(run.scratch, "cost.json")
    try:
        p = subprocess.run([run.vh, "cost", "--families", ff, "--out", outp, "--n", "512,2048" if q else "512,2048,8192", "--cpu-n", "8192" if q else "16384"],
                           cwd=run.scratch, capture_output=True, text=True, timeout=1500)
    except subprocess.TimeoutExpired:
        raise Infra("cost driver timeout")
    if p.returncode != 0:
        raise Infra("cost driver failed: %s %s" % (p.stdout[-1000:], p.stderr[-2000:]))
    res = json.load(open(outp))
    cpu = [r for r in res if r.get("cpu_n")]
    res = [r for r in res if not r.get("cpu_n")]
    for r in cpu:
        run.executions += 6
        # CPU time is only meaningful well above the noise floor; linear families stay below it, quadratic ones do not
        if r["cpu_ms"][1] >= 150 and r["ratio_cpu"] > 10:
            run.violation("family %s (op %s): going from n=%d to 4n multiplies the CPU time by %.1f (%.0f ms -> %.0f ms; linear is ~4, threshold 10)"
                          % (r["name"], r["op"], r["cpu_n"], r["ratio_cpu"], r["cpu_ms"][0], r["cpu_ms"][1]),
                          {"property": "C20", "kind": "cpu-growth", "family": [f for f in fams if f["name"] == r["name"]][0], "result": r}, "cpu")
    run.coverage_notes["cpu_families_measured"] = len(cpu)
    run.coverage_notes["max_cpu_ms_at_4n"] = round(max([r["cpu_ms"][1] for r in cpu] + [0]), 1)
    worst = {}
    for r in res:
        run.executions += 2
        if r["err"].startswith("panic"):
            run.violation("panic while measuring family %s: %s" % (r["name"], r["err"]), {"property": "C20", "kind": "panic", "result": r}, "panic")
            continue
        ratio = max(r["ratio_bytes"], r["ratio_mallocs"])
        w = worst.get(r["name"])
        if w is None or ratio > max(w["ratio_bytes"], w["ratio_mallocs"]):
            worst[r["name"]] = r
    over = [r for r in worst.values() if max(r["ratio_bytes"], r["ratio_mallocs"]) > COST_THRESHOLD]
    seen_known = run.__dict__.setdefault("_seen_known", set())
    for r in sorted(over, key=lambda r: -max(r["ratio_bytes"], r["ratio_mallocs"])):
        kf = findings.match(run.prop, {"what": "cost", "result": r})
        if kf:
            if kf["id"] not in seen_known:
                seen_known.add(kf["id"])
                run.known.append("%s: %s [family %s: bytes x%.1f]" % (kf["id"], kf["summary"], r["name"], r["ratio_bytes"]))
            continue
        if len(run.violations) < 12:
            run.violation("family %s (op %s): going from n=%d to 4n multiplies allocated bytes by %.1f and allocations by %.1f (linear is ~4, threshold %.0f): %d -> %d bytes"
                          % (r["name"], r["op"], r["n"], r["ratio_bytes"], r["ratio_mallocs"], COST_THRESHOLD, r["bytes"][0], r["bytes"][1]),
                          {"property": "C20", "kind": "growth", "family": [f for f in fams if f["name"] == r["name"]][0], "result": r})
    run.distinct = len(worst)
    run.coverage_notes["families_measured"] = len(worst)
    run.coverage_notes["max_ratio_bytes"] = round(max(r["ratio_bytes"] for r in worst.values()), 2)
    run.coverage_notes["ratios_sample"] = {r["name"]: [round(r["ratio_bytes"], 2), round(r["ratio_mallocs"], 2)] for r in list(worst.values())[:25]}
    run.samples += ["family %s: bytes x%.2f, mallocs x%.2f from n=%d to 4n" % (r["name"], r["ratio_bytes"], r["ratio_mallocs"], r["n"]) for r in list(worst.values())[:6]]
    run.exhaustive = False
    run.assumptions += ["growth is measured between n and 4n for n in {512, 2048[, 8192]} as TotalAlloc and Mallocs deltas (deterministic, single goroutine, GC off); a ratio above 9 is a violation "
                        "(linear families measure about 4-6, quadratic ones about 16)", "CPU work is measured as process CPU time (min of 3 runs) between n and 4n for n = 8192 / 16384 and judged only when the 4n run takes >= 150 ms (a linear family never does); ratio > 10 is a violation"]
    return run.finish("exploration", "design half by TLC: the work model of the specification's parser is linear (WorkBound on every state; per-pump increment bounded); measured half: every "
                      "(control state, unit) cycle of the parser's state graph found by TLC (spec/MC_Pump.tla) x suffixes, plus the families the property names and API-level ones "
                      "(setters, SearchParams, four profiles), each measured at n and 4n; distinct_nontrivial = families measured")


# --------------------------------------------------------------------------------------------
# C16 - every option has its documented effect and is otherwise neutral
# --------------------------------------------------------------------------------------------
def opt_families(run):
    q = run.tier == "quick"
    L = filler_letter(run.seed)
    inv = ["PtrOk", "TriggersSufficient"]
    fams = [
        # (sizes fitted to the measured ~8000 validated events/s x 22 configurations per input: thorough ~4.5 M events in ~10 min)
        Family("optmix", "/\\.%2|'\"`~ #?@:" + L, 2,
               prefixes=["http://h/", "x://h/", "gopher://h:70/", "file:///", "x:", "http://h/?", "x://h/#", "gopher://", "http://h/#", "", "gopher:", "http://u:p@h:8", "ws://"][:13 if not q else 8],
               bases=["http://u:p@b:81//p/./q?r#s"] if q else ["http://u:p@b:81//p/./q?r#s", "gopher://g/x"], invariants=inv),
        Family("optpath", "/\\.%C|2e" + L, 3 if q else 4, prefixes=["http://h/", "file:", "file:///"], suffixes=[""], invariants=inv),
        Family("optpathq", "/.%C|2" + L, 2, prefixes=["http://h/", "file:///"], suffixes=["?a'b#c`d"], invariants=inv),
    ] + ([] if q else [
        Family("optmix3", "/\\.%2|'\"`~ #?@:" + L, 3, minlen=3, prefixes=["http://h/", "x://h/", "gopher://h:70/", "file:///", "x:", "http://h/?", "x://h/#", ""],
               bases=["http://u:p@b:81//p/./q?r#s"], invariants=inv),
    ]) + [
        Family("optquery", "&=a+'\"|~%b", 2 if q else 4, prefixes=["http://h/?", "x://h/?", "http://h/?b=2&a=1&"], suffixes=["", "#f|~\""], invariants=inv),
        Family("optraw", [0x110080, 0x1100FF, ord(L), ord("/"), ord("%"), ord(".")], 3 if q else 4, prefixes=["http://h/", "http://", "x:"], invariants=["PtrOk"]),
        Family("optnoscheme", L + "./:@?#", 3 if q else 4, prefixes=["", "h", "//"], invariants=inv),
        # ports of added special schemes (gopher: default 70; ipfs: no default port, so not even port 0 is elided) next to http and a non-special scheme
        Family("optspecialport", "0:78/", 3 if q else 4, prefixes=["ipfs://h", "gopher://h", "http://h", "x://h", "ipfs://h:0", "ipfs:"], invariants=["PtrOk"]),
        # references against bases with an opaque path (a relative reference fails there for a reason other than a missing scheme of the input)
        Family("optopaquebase", L + "./:?#", 2 if q else 3, bases=["m:o?q#f", "x:80", "localhost:8080"], nobase=False, invariants=["PtrOk"]),
        # long queries with duplicate names (sort stability only shows beyond a dozen pairs)
        Family("optlongquery", "&" + L, 1, frames=[("http://h/p?" + "&".join("%s=%d" % ("cba"[(i * 7 + i // 3) % 3], i) for i in range(n_)), "#f") for n_ in (13, 16, 23, 30)], invariants=["PtrOk"]),
        # every credential shape (username-only, password-only, empty, with ':' inside) and every port shape
        Family("optcreds", L + "@:", 4 if q else 5, prefixes=["http://", "x://", "ws://"], suffixes=["h/", "h:80/#f", "h:8/?b=2&a=1#"][:2 if q else 3], invariants=inv),
    ]
    return fams


def check_c16(run):
    run.build_harness()
    run.selftest()
    for fam in opt_families(run):
        mod = fam.write(run.scratch)
        bad, n = run.tlc_events(mod, fam.name, "opt", cfg=mod + ".cfg", chunks=14, events_args=["--setter-events"] if fam.name in ("optmix", "optraw") else [], timeout=1800)
        run.samples.append("[%s/opt] %d composite events (input x option configuration) recorded from the real code" % (fam.name, n))
        absorb_events(run, bad, fam.name)
        run.distinct += n
    # T-mode on parsers built with an option whose effect is modelled EXACTLY: random histories (parse / resolve / setters / SearchParams / clone)
    # recorded from the real code and validated against the specification run with that option record
    exact = ["special_gopher", "special_nofile", "set_path", "set_query", "set_squery", "set_frag", "set_sfrag"]
    q = run.tier == "quick"
    r_ = rng(run.seed, "c16traces")
    for i, pn in enumerate(exact if not q else r_.sample(exact, 2)):
        bad, nev = run.record_and_validate(1200 if q else 12000, seed_salt=160 + i, parser=pn, parse_only=40)
        mine = [(dict(ev, k="trace", opt=pn, **{"in": ev.get("a", [])}), [v for v in vs if not v.startswith("C03")]) for ev, vs in bad]
        absorb_events(run, [(e, v) for e, v in mine if v], "option-traces")
    run.samples.append("[T-mode] histories recorded on parsers built with special-scheme tables / replaced percent-encode sets, validated by TLC against UrlApi.tla with POpts = the option record")
    # the relaxing options on whole HISTORIES: the specification models each of them exactly, but C16 demands only neutrality outside the trigger, so a
    # mismatch is a violation only when no input of the history so far contains the trigger (over-approximated, so that nothing is demanded that
    # the property does not state); a mismatch after a triggering input - and any mismatch for the options C16 does not constrain (skip-trailing-slash,
    # the host functions) - is reported as a NOTE on the drift between specification and code and does not affect the verdict
    import re as _re
    def _texts(ev):
        out = [ev.get("a") or [], ev.get("b") or []] + list(ev.get("bs") or [])
        return [[c for c in t if c not in (9, 10, 13)] for t in out]
    def _hex(c):
        return 48 <= c <= 57 or 65 <= c <= 70 or 97 <= c <= 102
    TRIG = {
        "collapse": lambda t: any(t[i] in (47, 92) and t[i + 1] in (47, 92) for i in range(len(t) - 1)),
        "single_pct": lambda t: any(t[i] == 37 and not (i + 2 < len(t) and _hex(t[i + 1]) and _hex(t[i + 2])) for i in range(len(t))),
        "skip_drive": lambda t: 124 in t,
        "accept_invalid": lambda t: any(c >= 0x110000 or c == 0xFFFD for c in t),
    }
    def _history_triggered(ev, trig):
        f, i = ev["_src"]
        lines = open(f).read().splitlines()
        k = i - 1
        while k >= 0:
            e = json.loads(lines[k])
            if e.get("op") == "reset":
                break
            if any(trig(t) for t in _texts(e)):
                return True
            k -= 1
        return False
    neutral_t = list(TRIG) if not q else r_.sample(list(TRIG), 1)
    notes_only = [] if q else ["skip_trailing", "pre_host_trim", "pre_host_const", "post_host_const", "latin1"]
    drift = 0
    for i, pn in enumerate(neutral_t + notes_only):
        bad, nev = run.record_and_validate(1200 if q else 8000, seed_salt=180 + i, parser=pn, parse_only=40)
        for ev, vs in bad:
            vs = [v for v in vs if not v.startswith("C03")]
            if not vs:
                continue
            if pn in TRIG and not _history_triggered(ev, TRIG[pn]):
                e2 = dict(ev, k="trace", opt=pn, **{"in": ev.get("a", [])})
                absorb_events(run, [(e2, ["neutrality on a recorded history (no input so far contains the trigger of %s): %s" % (pn, v) for v in vs])], "option-histories")
            else:
                drift += 1
                print("NOTE: specification and code differ under option %s on a %s event (not demanded by C16): %s" % (pn, ev.get("op"), vs[0][:120]))
    run.coverage_notes["option_history_parsers"] = neutral_t + notes_only
    run.coverage_notes["spec_drift_notes"] = drift
    # skip-equals: exact, through the list machine with the SkipEquals deviation switched on in both the spec and the real parser
    names = ["", "a", "b"]
    values = ["", "1"]
    fam = ApiFamily("skip_equals", ["http://h/?a=&b=1&=", "x:o?a", "http://h/p"], sp_ops=sp_ops(names, values), depth=3, dev="DevSkipEq")
    mod = fam.write(run.scratch)
    S, M, st = run.tlc_replay(mod, fam.name, cfg=mod + ".cfg", replay_args=["--keys", "href,query,search", "--parser", "skip_equals"])
    absorb(run, M, S, fam.name)
    run.assumptions += ["experimental parser options are constrained only by the table of DESIGN.md 4/C16: neutrality outside the trigger, exact prediction where the effect is modelled "
                        "(special schemes, the five replaced percent-encode sets, remove-*, default-scheme, skip-equals), otherwise the stated postcondition only"]
    return run.finish("model_checking", "every input of five families built to contain both triggering and non-triggering cases x 22 option configurations (each option alone, and combined) "
                      "is run on the real code next to the default parser and recorded as one composite event; TLC evaluates neutrality outside the trigger, exact predictions "
                      "(specification run with the option record / the standard's setters) and postconditions; TLC also checks on the specification that each modelled trigger is "
                      "sufficient; distinct = composite events")


# --------------------------------------------------------------------------------------------
# C17 / C18 - canonicalizer fixed point and spelling classes
# --------------------------------------------------------------------------------------------
COMPOSED = ["canon:remove_userinfo", "canon:remove_port", "canon:remove_fragment", "canon:sort_keys", "canon:sort_param", "canon:default_scheme", "canon:repeated_decode",
            "canon:remove_userinfo+remove_port+remove_fragment+sort_keys+default_scheme+repeated_decode", "canon:remove_fragment+sort_param+repeated_decode"]
ALL_STRING_PROFILES = ["WhatWg", "WhatWgSortQuery"] + COMPOSED + ["GoogleSafeBrowsing", "Semantic"]   # the last two: output predicted, fixed point only on the grammar
UNRESERVED = "abcxyzABZ0179-._~"


def canon_family(run, name, mode, k, big):
    from .families import CanonFamily
    r = rng(run.seed, "canon-" + name)
    def word(n):
        return "".join(r.choice(UNRESERVED) for _ in range(n))
    def okword(w):
        return w not in (".", "..")
    segs = [w for w in [word(1), word(2), "a~", "-_"] if okword(w)]
    schemes = r.sample(["http", "https", "ftp", "ws", "wss"], 3 if big else 2)
    hosts = r.sample(["h", "a-b.c0", "example.com", "1.2.3.4", "[::1]", "x1.y-2.z", "[2001:db8::a]"], 3 if big else 2)
    if name.startswith("classes"):
        # class families always hold a domain with letters and an IPv6 literal with hex letters, in that order: the letter case of a host covers both
        hosts = [r.choice(["a-b.c0", "example.com", "x1.y-2.z"]), "[2001:db8::a]"] + [h for h in hosts if not h.startswith("[")][:max(0, len(hosts) - 2)]
    creds = r.sample([[], ["u"], ["u", "p"], ["", "p"]], 2)
    ports = [[], [r.choice(["8", "8080", "0", "65535"])]]
    return CanonFamily(name, mode, schemes, creds, hosts, ports, r.sample(segs, 2), 2, [word(1), ""], [word(2), ""], 1 if not big else 2, [word(2)], k,
                       invariants=["StdClassInv"] if mode == "class" else [])


def check_c17(run):
    from .families import CanonFamily
    run.build_harness()
    run.selftest()
    q = run.tier == "quick"
    # (1) ALL strings (the C01 families without base): output predicted for every profile, fixed point demanded of WhatWg, WhatWgSortQuery and the
    #     option-composed profiles.  Sizes are fitted to ~2000 validated events/s: quick ~0.2 M events, thorough ~1.5 M.
    from types import SimpleNamespace
    base_fams = {f.name: f for f in c01_families(SimpleNamespace(tier="quick", seed=run.seed))}
    L = filler_letter(run.seed)
    RICH = ["WhatWgSortQuery", COMPOSED[6], COMPOSED[7], COMPOSED[8], "GoogleSafeBrowsing", "Semantic"]
    plan = []     # (family, profiles)
    sizes = {"struct": 3, "path": 3, "host": 2} if q else {"struct": 4, "path": 4, "host": 3, "creds": 7}
    for name in ("struct", "path", "class", "creds", "host"):
        f = base_fams[name]
        f.maxlen = sizes.get(name, f.maxlen)
        plan.append((f, None))
    if not q:
        for name in ("file", "dotdeep", "ws", "brackets"):    # further shapes, on the six richest profiles
            plan.append((base_fams[name], RICH))
    plan.append((Family("idemquery", ("&=%25'" + L) if q else ("&=+%25a'" + L), 4, prefixes=["http://h/?", "x:o?"], invariants=["PtrOk"]), None))   # ' : spelled %27 by the parser of a special URL, literally by the list serializer
    # two parameters, one of them with a nested escape in its name: the order of sorting and decoding matters
    plan.append((Family("idemnest", "ab&=%" if q else "abc&=%2", 2 if q else 3, prefixes=["http://h/?%2562&", "http://h/?%2562=%2563&", "x:o?%2562="], invariants=["PtrOk"]), None))
    plan.append((Family("laxhost", [0x110080, 0x1100FF, ord("."), ord("a"), ord("%"), ord("4"), ord("1"), ord("A"), ord(" "), 0xE9, ord("E"), ord("9"), 0x7F], 2 if q else 3,
                        prefixes=["http://", "x://"], suffixes=["/p?q"], invariants=["PtrOk"]), None))
    plan.append((Family("laxpath", [0x110080, ord("/"), ord("%"), ord("2"), ord("5"), ord("e"), 0xE9, ord("E"), ord("9"), ord("."), ord("&"), ord("=")], 2 if q else 3,
                        prefixes=["http://h/", "http://h/?", "http://h/#"], invariants=["PtrOk"]), None))
    for f, profs in plan:
        f.bases, f.nobase = [], True
    # the profile's ParseRef: references against bases with an opaque path, without a scheme (the BASE gets the default scheme), with a host-less
    # scheme-relative form, special / file bases and the empty base
    plan.append((Family("idemref", L + "/?#.:", 2 if q else 3, bases=["x:80", "m:o?q#f", "b/c?d", "localhost:8080", "http://u:p@h:8/a/b?q#f", "file:///C:/d", "//h", "", "%2562/./c"],
                        nobase=False, invariants=["PtrOk"]), None))
    # opaque hosts whose decoded form starts with a delimiter ('/', ':', '@', '#'), with and without credentials / port: the host setter refuses to
    # empty a host while credentials or a port are present, so the order of "remove" and "decode" matters (finding F27, repaired)
    plan.append((Family("idemopaquehost", "%2f:@/8#", 3 if q else 4, prefixes=["x://", "x://u@", "x://%2f", "x://u:p@%2f", "http://u@h"], bases=[], nobase=True, invariants=["PtrOk"]), None))
    for f, profs in plan:
        mod = f.write(run.scratch)
        if profs is None:
            profs = ALL_STRING_PROFILES
            if q:   # quick: the predefined ones, the richest compositions and one seed-chosen single option
                profs = RICH + rng(run.seed, "c17profs").sample(["WhatWg"] + COMPOSED[:6], 1)
        bad, n = run.tlc_events(mod, f.name, "idem", cfg=mod + ".cfg", chunks=14, events_args=["--names", ",".join(profs)], timeout=1800)
        run.samples.append("[%s/idem] %d events (input x profile: y = p(x), z = p(y)) for %d profiles" % (f.name, n, len(profs)))
        absorb_events(run, bad, f.name)
        run.distinct += n
    # (2) GoogleSafeBrowsing / Semantic (and the others again): every spelling of the ordinary-web-URL grammar
    #     quick: one re-spelled character on the small grammar (~0.1 M events); thorough: one on the large grammar and two on the small one (~1 M each;
    #     two on the large grammar would be 11 M events)
    for gname, k, big in ([("grammar", 1, False)] if q else [("grammar", 1, True), ("grammar_k2", 2, False)]):
        gf = canon_family(run, gname, "spell", k, big)
        mod = gf.write(run.scratch)
        bad, n = run.tlc_events(mod, gf.name, "idem", cfg=mod + ".cfg", chunks=14, events_args=["--names", "GoogleSafeBrowsing,Semantic,WhatWgSortQuery,canon:repeated_decode"], timeout=1800)
        run.samples.append("[%s/idem] %d events over the ordinary-web-URL grammar (schemes %s, hosts %s) with up to %d re-spelled characters" % (gf.name, n, gf.schemes, gf.hosts, gf.k))
        absorb_events(run, bad, gf.name)
        run.distinct += n
    # (3) scan: a token-generated space two orders of magnitude larger than TLC can validate event by event is explored by the driver on the real
    #     code (canonicalize twice); the (input, profile) pairs on which the fixed-point law FAILS, and every 2000th other pair, become events that
    #     TLC validates like all others (law, exact prediction, finding tags). Tokens are percent-encoded delimiters and their literal forms -
    #     the shape of finding F27, which no enumerated family contained. No '?', '&', '=': the serializer finding F03 would flood the events.
    from .core import cps
    toks = ["%2f", "%3a", "%40", "%23", "%25", "%5c", "%2e", "%20", "%00", "%c3%a9", "/", ":", "@", "#", "\\", ".", " ", "8", "u", "\u00e9", "%", "[", "]"]
    pres = ["x://", "x://u@", "x://u:p@", "x:", "x:/", "http://", "http://u@", "x://h:8/", "x://h/", "x:o", "file://", "http://h/", "x://h:8/#", "http://h/#", ""]
    sf = os.path.join(run.scratch, "scan_c17.txt")
    with open(sf, "w") as f:
        f.write(json.dumps(json.dumps({"t": "scan", "pre": [cps(x) for x in pres], "tok": [cps(x) for x in toks], "n": 3 if q else 4, "sample": 2000})) + "\n")
    bad, n = run.tlc_events(None, "scan", "idem", source_file=sf, chunks=14, events_args=["--names", ",".join(ALL_STRING_PROFILES)], timeout=1800)
    nscan = sum(len(toks) ** k for k in range(0, (3 if q else 4) + 1)) * len(pres) * len(ALL_STRING_PROFILES)
    run.coverage_notes["scan_pairs_explored_on_impl"] = nscan
    run.samples.append("[scan/idem] %d (input, profile) pairs canonicalized twice by the driver; %d of them (law failures + every 2000th) validated by TLC" % (nscan, n))
    absorb_events(run, bad, "scan")
    run.distinct += n
    # pinned reproducers of the open findings (re-run on every invocation; they print KNOWN-FINDING while they still fail)
    pf = os.path.join(run.scratch, "pinned_c17.txt")
    with open(pf, "w") as f:
        for s_ in ["http://h/?=&a", "http://h/?b=%2561&a=1", "http://h/?%2b"]:
            f.write(json.dumps(json.dumps({"t": "u", "in": cps(s_)})) + "\n")
    bad, n = run.tlc_events(None, "pinned", "idem", source_file=pf, chunks=1, events_args=["--names", "GoogleSafeBrowsing,WhatWgSortQuery,canon:repeated_decode"])
    absorb_events(run, bad, "pinned")
    run.assumptions += ["for GoogleSafeBrowsing and Semantic the output is predicted for every string, the fixed-point law is demanded only on the ordinary-web-URL grammar (spec/Canon.tla), as the property states"]
    return run.finish("model_checking", "fixed-point law z = p(p(x)) = p(x) evaluated by TLC on outputs observed from the real code: for WhatWg, WhatWgSortQuery and 9 option-composed "
                      "profiles on every string of the parse families (all strings domain); for GoogleSafeBrowsing and Semantic on every spelling (literal / escaped / nested, "
                      "either hex case) of the grammar URLs enumerated by TLC; distinct = events")


def check_c18(run):
    run.build_harness()
    run.selftest()
    q = run.tier == "quick"
    profs = ["GoogleSafeBrowsing", "Semantic", "canon:repeated_decode", "WhatWg", "WhatWgSortQuery", "canon:remove_port+sort_keys", "canon:remove_fragment+sort_param+repeated_decode"]
    # a class event holds ALL spellings of one abstract URL reachable by up to k variations. quick: k = 2 on a small grammar; thorough: k = 3 on that
    # grammar and k = 2 on a grammar 16 times larger (TLC needs ~0.5 s per abstract URL at k = 3, ~0.1 s at k = 2)
    plans = [("classes", 2, True)] if q else [("classes_k3", 3, True), ("classes_k2", 2, False)]
    for name, k, small in plans:
        gf = canon_family(run, name, "class", k, False)
        gf.names = ["a", "b"]          # two distinct non-empty names: the order of the parameters matters for sorting profiles
        gf.maxpairs = 2
        gf.values = gf.values[:1]
        if small:
            gf.maxsegs = 1
            gf.creds, gf.hosts = gf.creds[:1], gf.hosts[:2]
        mod = gf.write(run.scratch)
        bad, n = run.tlc_events(mod, gf.name, "class", cfg=mod + ".cfg", chunks=14, events_args=["--names", ",".join(profs)], timeout=1800)
        run.samples.append("[%s] %d class events: every abstract URL of the grammar x all combinations of up to %d variations x %d profiles" % (gf.name, n, gf.k, len(profs)))
        absorb_events(run, bad, gf.name)
        run.distinct += n
    run.assumptions += ["classes that use escapes or an empty fragment are demanded only of GoogleSafeBrowsing, Semantic and profiles with repeated percent-decoding; "
                        "classes built from differences the standard itself normalises are demanded of every profile (and proved of the specification by TLC: StdClassInv)"]
    return run.finish("model_checking", "TLC enumerates abstract URLs of the ordinary-web-URL grammar and, for each, the class of all spellings obtained by up to 2-3 variations "
                      "(case of scheme/host, hex case, optional and nested escapes, explicit default / empty port, '.', 'x/..' also as %2e, tab/LF/CR, surrounding whitespace, "
                      "empty fragment); every spelling is canonicalized by the real profiles and TLC checks that all outputs of a class coincide; distinct = class events")


# --------------------------------------------------------------------------------------------
# C02 - total API under every configuration
# --------------------------------------------------------------------------------------------
def check_c02(run):
    from .core import cps
    run.build_harness()
    run.selftest()
    q = run.tier == "quick"
    L = filler_letter(run.seed)
    # design: the specification's parser terminates (liveness under weak fairness) and never leaves the input
    live = [f for f in c01_families(run) if f.name == "struct"][0]
    live.maxlen, live.liveness = (3 if q else 4), True
    live.name = "struct_live"
    mod = live.write(run.scratch, emit=False)
    run.tlc(mod, cfg=mod + ".cfg", timeout=900)
    run.samples.append("[design] <>done under weak fairness and PtrOk hold on the struct family: the specification's parser terminates on every input and never indexes outside it")
    # the configuration quantifier: TLC enumerates the configurations (spec/MC_Config.tla)
    bool_opts = ["report", "fail_on_ve", "lax_host", "collapse", "accept_invalid", "single_pct", "allow_path_nonbase", "skip_drive", "skip_trailing", "skip_equals"]
    valued = ["special_gopher", "special_nofile", "latin1", "set_path", "small_path_set", "set_query", "set_sfrag", "pre_host_trim", "pre_host_const", "post_host_const",
              "remove_userinfo", "remove_port", "remove_fragment", "repeated_decode", "sort_keys", "sort_param", "default_scheme"]
    with open(os.path.join(run.scratch, "G_config.tla"), "w") as f:
        f.write("---- MODULE G_config ----\nEXTENDS MC_Config\nF_Bool == {%s}\nF_Valued == {%s}\nF_Excl == {{\"special_gopher\", \"special_nofile\"}, {\"sort_keys\", \"sort_param\"}, "
                "{\"set_path\", \"small_path_set\"}, {\"pre_host_trim\", \"pre_host_const\"}}\n====\n" % (", ".join('"%s"' % o for o in bool_opts), ", ".join('"%s"' % o for o in valued)))
    with open(os.path.join(run.scratch, "G_config.cfg"), "w") as f:
        f.write("CONSTANTS\n BoolOpts <- F_Bool\n ValuedOpts <- F_Valued\n Mode = \"%s\"\n Valued = %d\n Exclusive <- F_Excl\nINIT Init\nNEXT Next\nINVARIANT Emit\nCHECK_DEADLOCK FALSE\n"
                % ("pairwise" if q else "all", 2 if q else 1))
    cout, cst = run.tlc("G_config", cfg="G_config.cfg", timeout=600)
    cfgfile = os.path.join(run.scratch, "configs.txt")
    with open(cfgfile, "w") as f:
        f.write("\n".join(l for l in cout.splitlines() if l.startswith('"')) + "\n")
    run.coverage_notes["configurations_enumerated_by_tlc"] = cst["distinct"]
    run.samples.append("[MC_Config] TLC enumerates %d configurations (%s subsets of the 10 boolean options x up to %d valued options)" % (cst["distinct"], "pairwise" if q else "all 2^10", 2 if q else 1))
    nasty = [
        Family("nasty", [0x110080, 0x1100FF, 0x1100C0, 0, ord("/"), ord(":"), ord("@"), ord("%"), ord("["), ord("\\"), ord("?"), ord("#"), ord(L), ord("|"), ord(".")], 2 if q else 3,
               prefixes=["", "http://", "http://h/", "file:", "x:", "x://", "http://h:", "//"], invariants=["PtrOk"]),
        Family("nastyhost", [0x110080, 0x1100FF, ord("."), ord("a"), ord("%"), ord("1"), 0xE9], 3 if q else 4, prefixes=["http://", "file://", "x://"], suffixes=["", "/p"], invariants=["PtrOk"]),
    ]
    for fam in nasty:
        mod = fam.write(run.scratch)
        bad, n = run.tlc_events(mod, fam.name, "robust", cfg=mod + ".cfg", chunks=12, tool="robust",
                                events_args=["--seed", str(run.seed), "--tier", run.tier, "--cfg-per-input", "6" if q else "8", "--configs", cfgfile], timeout=1500)
        absorb_robust(run, bad, fam.name)
        run.distinct += n
    # pumped long inputs and degenerate ones
    pf = os.path.join(run.scratch, "long_inputs.txt")
    longs = ["", " ", "\x00", ":", "/", "//", "?", "#", "@", "%", "[", "]", "\udcff", "\udcff\udcfe", "http://\udcff\udcfe/", "http://a\udcffb\udc80c/"]
    for p, u, s in [("http://", "@", "h/"), ("http://", "a", "@h/"), ("http://h/", "a/", ""), ("http://h/", "../", ""), ("http://h/?", "a=b&", ""), ("x:", "%", ""),
                    ("http://", "\udcff", "/"), ("http://[", ":", "]"), ("http://", "1.", "1"), ("", "a", ":b"), ("file:///", "C|/", ""), ("http://h/#", "\u00e9", "")]:
        longs.append(p + u * (300 if q else 1000) + s)
    with open(pf, "w") as f:
        for s_ in longs:
            f.write(json.dumps(json.dumps({"t": "u", "in": cps(s_)})) + "\n")
    bad, n = run.tlc_events(None, "long", "robust", source_file=pf, chunks=4, tool="robust", events_args=["--seed", str(run.seed), "--tier", run.tier, "--cfg-per-input", "40" if q else "64", "--configs", cfgfile], timeout=1500)
    absorb_robust(run, bad, "long")
    run.distinct += n
    run.samples.append("robust event: {cfg: 'lax_host+accept_invalid', in: 'http://\\xff\\xfe/', calls: ~900 public calls (parse, 8 bases, resolve, clone, 9 setters x 16 nasty values, SearchParams ops, getters), bad: []}")
    run.exhaustive = False
    run.assumptions += ["scope as the property's quantifier lists it: BasicParser with arbitrary override values and nil pointer arguments are not driven",
                        "quick: every boolean option alone and every pair (pairwise coverage) + valued options + 20 random mixtures + 4 profiles; thorough: all 2^10 subsets of the boolean options + 200 mixtures"]
    return run.finish("model_checking", "design: TLC proves termination (<>done under WF) and cursor bounds of the specification's parser on the struct family; binding: for every input of the nasty "
                      "families (raw invalid bytes at every position incl. several in a host, NUL, delimiters only) and pumped long inputs, under configurations rotating through the whole "
                      "configuration list, ~900 public calls per (input, configuration) run under recover() and a watchdog; TLC validates each event against the action "
                      "result' in {error} U AnyUrl; distinct = (input, configuration) events")


def absorb_robust(run, bad, family):
    n = 0
    for ev, verdicts in bad:
        n += 1
        if n <= 8:
            b = ev.get("bad", [{}])[0]
            run.violation("configuration %r, input %r: %s in %s: %s" % (ev.get("cfg"), from_cps(ev.get("in", [])), b.get("what"), b.get("call"), (b.get("msg") or "")[:200]),
                          {"property": "C02", "kind": "robust", "family": family, "event": ev})
    if n:
        run.coverage_notes.setdefault("events_not_ok_by_family", {})[family] = n
