"""Per-property decision procedures (DESIGN.md section 4)."""
import json, os, subprocess, sys
from .core import Run, Infra, VERIF, from_cps
from .families import Family, BASES_ALL, BASES_MAIN, filler_letter, filler_digit, filler_nonascii, rng
from . import findings


def describe_mismatch(m):
    ln = m.get("line", {})
    if ln.get("t") == "p":
        base = (" base=%r" % from_cps(ln["bs"][0])) if ln.get("bs") else ""
        if m["what"] == "failure":
            return "parse %r%s via %s: spec says %s, code %s" % (from_cps(ln["in"]), base, m["entry"],
                                                                 "failure" if m["exp"] else "success", "fails" if m["got"] else "succeeds")
        if m["what"] == "getters":
            k = m["keys"][0]
            e, g = m["exp"].get(k), m["got"].get(k)
            if isinstance(e, list):
                e, g = from_cps(e), from_cps(g)
            return "parse %r%s via %s: %s differ (first: %s spec=%r code=%r)" % (from_cps(ln["in"]), base, m["entry"], ",".join(m["keys"]), k, e, g)
        return "parse %r%s via %s: %s" % (from_cps(ln["in"]), base, m["entry"], m["what"])
    steps = ln.get("steps", [])
    hist = "; ".join("%s%s[h%d](%s%s)" % (s["op"], "." + s["n"] if s.get("n") else "", s["h"], repr(from_cps(s.get("a") or [])),
                                         "," + repr(from_cps(s["b"])) if s.get("b") else "") for s in steps[:m.get("step", len(steps))])
    return "history {%s} (%s handle mode) step %d handle %d: %s %s" % (hist, m.get("entry"), m.get("step", 0), m.get("handle", 0), m["what"], ",".join(m.get("keys") or []))


def absorb(run, M, S, family, prop_filter=None):
    """Turn replay mismatches into violations / known findings."""
    if "hang" in S:
        run.violation("the real code did not return on a behaviour of family %s: %s" % (family, S["hang"][:300]), {"family": family, "hang": S["hang"]}, "hang")
        return
    total = S.get("mismatches", 0)
    seen_known = set()
    nviol = 0
    for m in M:
        if prop_filter and not prop_filter(m):
            continue
        kf = findings.match(run.prop, m)
        if kf:
            if kf["id"] not in seen_known:
                seen_known.add(kf["id"])
                run.known.append("%s: %s [e.g. %s]" % (kf["id"], kf["summary"], describe_mismatch(m)))
            continue
        nviol += 1
        if nviol <= 10:
            run.violation(describe_mismatch(m), {"property": run.prop, "kind": "replay-mismatch", "mismatch": m})
    if nviol:
        run.coverage_notes.setdefault("mismatches_by_family", {})[family] = {"reported": nviol, "total_in_family": total}


def run_parse_families(run, fams, keys="std", entries=None):
    for fam in fams:
        mod = fam.write(run.scratch)
        args = ["--keys", keys]
        if entries:
            args += ["--entries", entries]
        S, M, st = run.tlc_replay(mod, fam.name, cfg=mod + ".cfg", replay_args=args)
        absorb(run, M, S, fam.name)


# --------------------------------------------------------------------------------------------
# C01 - parsing conforms to the standard
# --------------------------------------------------------------------------------------------
def c01_families(run):
    q = run.tier == "quick"
    L, D, U = filler_letter(run.seed), filler_digit(run.seed), filler_nonascii(run.seed)
    inv = ["PtrOk", "BasesParse"]
    fams = [
        Family("struct", L + ":/\\?#@.", 4 if q else 5, prefixes=["", "http:", "file:", "x:"],
               bases=BASES_MAIN if q else BASES_ALL, invariants=inv),
        Family("host", "01" + D + "xX" + "af" + L + ".-+:[]%2", 3 if q else 4, prefixes=["http://", "x://", "file://"], suffixes=["", "/p"] if not q else [""],
               invariants=inv),
        Family("path", ".%2eE/\\" + L, 4 if q else 5, prefixes=["http://h/", "x://h/", "x:/", "file:///"], suffixes=["", "?q"] if not q else [""], invariants=inv),
        Family("file", "C|:/\\?#" + L + ".", 3 if q else 4, prefixes=["file:", "", "/", "//"],
               bases=["file:///C:/d/e", "file://fh/x/y"] + ([] if q else ["file:///D|/a", "file:///"]), invariants=inv),
        Family("ipv4deep", "01.", 8 if q else 10, prefixes=["http://"], invariants=inv),
        Family("ipv6deep", "1:.", 7 if q else 9, prefixes=["http://["], suffixes=["]"], invariants=inv),
        Family("brackets", "[]:1", 6 if q else 7, prefixes=["http://", "x://"], suffixes=["/"], invariants=inv),
        Family("dotdeep", "./" + L, 7 if q else 9, prefixes=["http://h/a/b/", "x:/a/"], bases=[] , invariants=inv),
        Family("creds", L + "@:", 6 if q else 8, prefixes=["http://", "x://"], suffixes=["h/"], invariants=inv),
    ]
    # class: one code point substituted at each of 12 positions, alone and next to '%'
    boundary = [0x7F, 0x80, 0xA0, 0x7FF, 0x800, 0xD7FF, 0xE000, 0xFDD0, 0xFFFD, 0xFFFE, 0x10000, 0x1FFFE, 0x10FFFF,
                0x110080, 0x1100C0, 0x1100FF]   # the last three are raw invalid bytes 0x80 0xC0 0xFF
    r = rng(run.seed, "class")
    extra = [r.randrange(0xA1, 0x2FFF) for _ in range(4)] + [ord(U)]
    alphabet = list(range(0, 128)) + boundary + extra
    frames = [("", "://h/"), ("s", "://h/"), ("http://", "@h/"), ("http://u:", "@h/"), ("http://", "/"), ("http://a", "b/"),
              ("x://", "/"), ("x://a", "b/"), ("http://h:", "/"), ("http://h:8", "/"), ("http://h/", ""), ("http://h/a", "b"),
              ("x://h/", ""), ("x:", ""), ("x:a", "b"), ("http://h/?", ""), ("x://h/?", ""), ("http://h/#", ""), ("x:#", ""),
              ("http://h/%", ""), ("http://h/?%", "1"), ("x:%4", ""), ("file:///", ""), ("file://", "/")]
    fams.append(Family("class", alphabet, 1, minlen=1, frames=frames, invariants=inv))
    # ws: C0/space/tab/newline spliced into every position of a few seed URLs
    seeds = ["http://u:p@h:8/a?q#f", "file:///C:/d", "x:o p"]
    wsframes = [(s[:i], s[i:]) for s in seeds for i in range(len(s) + 1)]
    fams.append(Family("ws", [0, 9, 10, 13, 32, 31], 1 if q else 2, minlen=1, frames=wsframes, bases=["http://b/c"] if not q else [], invariants=inv))
    return fams


def check_c01(run):
    run.build_harness()
    run.selftest()
    run_parse_families(run, c01_families(run), keys="std")
    run.assumptions += ["IDNA mapping of non-ASCII / xn-- labels is taken as given (behaviours needing it are skipped in E-mode and inferred from the log in T-mode)",
                        "bounded: every string over each family alphabet up to the stated length; longer inputs only through recorded random traces"]
    return run.finish("model_checking", "every string over a family alphabet (the characters the parser states branch on) up to the family bound, "
                      "times every base of the family; one TLC step per parser-loop iteration; a case is distinct by its expected outcome "
                      "(expected serialization, or failure); distinct_nontrivial counts distinct expected outcomes")


def replay_file(prop, path):
    print("replay of %s: see 'mismatch' in the file; re-run the check to re-execute" % path)
    return 0
