"""Known findings: genuine defects of the pinned tree that are recorded rather than repaired.
The list lives in /verif/known_findings.json (committed, never written at run time)."""
import json, os
from .core import VERIF

_F = None


def load():
    global _F
    if _F is None:
        p = os.path.join(VERIF, "known_findings.json")
        _F = json.load(open(p)) if os.path.exists(p) else {"findings": []}
    return _F


def match(prop, mismatch):
    for f in load()["findings"]:
        if f.get("status") != "open" or prop not in f["properties"]:
            continue
        fn = MATCHERS.get(f["matcher"])
        if fn and fn(f, mismatch):
            return f
    return None


MATCHERS = {}
