"""Known findings: genuine defects of the pinned tree that are recorded rather than repaired.
The list lives in /verif/known_findings.json (committed, never written at run time)."""
import json, os
from .core import VERIF

_F = None


def load():
    global _F
    if _F is None:
        p = os.path.join(VERIF, "known_findings.json")
        _F = json.load(open(p)) if os.path.exists(p) else {"findings": []}
    return _F


def match(prop, mismatch):
    for f in load()["findings"]:
        if f.get("status") != "open" or prop not in f["properties"]:
            continue
        fn = MATCHERS.get(f["matcher"])
        if fn and fn(f, mismatch):
            return f
    return None


def m_codec_law_delims(f, m):
    """F03: the codec law fails on the real code AND the specification predicts exactly that (ImplQueryEscape) AND the
    specification's predicate HasDelims holds for the list (a name/value contains one of % & + =)."""
    return m.get("what") == "codec-law" and isinstance(m.get("exp"), dict) and m["exp"].get("delims") is True and m["exp"].get("faithful") is False


def m_f03(f, m):
    if m_codec_law_delims(f, m):
        return True
    return m.get("what") == "event" and m["event"].get("k") == "idem" and "[F03:" in m.get("verdict", "")


def m_f14(f, m):
    return m.get("what") == "event" and m["event"].get("k") == "idem" and "[F14:" in m.get("verdict", "")


def m_f21(f, m):
    return m.get("what") == "event" and "[F21:" in m.get("verdict", "")


MATCHERS = {"codec_law_delims": m_f03, "f03": m_f03, "f14": m_f14, "f21": m_f21}
