"""bin/check <ID> [--tier quick|thorough] [--replay file]"""
import argparse, os, sys, traceback
from .core import Run, Infra
from . import checks


def main():
    ap = argparse.ArgumentParser()
    ap.add_argument("prop")
    ap.add_argument("--tier", default=os.environ.get("VERIF_TIER", "quick"), choices=["quick", "thorough"])
    ap.add_argument("--replay", default=None)
    a = ap.parse_args()
    seed = int(os.environ.get("VERIF_SEED", "1"))
    prop = a.prop.upper()
    if a.replay:
        sys.exit(checks.replay_file(prop, a.replay))
    fn = getattr(checks, "check_" + prop.lower(), None)
    if fn is None:
        print("no check for", prop)
        sys.exit(2)
    run = Run(prop, a.tier, seed)
    try:
        rc = fn(run)
    except Infra as e:
        print("INFRASTRUCTURE FAILURE (exit 2, not a violation): %s" % e)
        sys.exit(2)
    except Exception:
        traceback.print_exc()
        print("INFRASTRUCTURE FAILURE (exit 2, not a violation): internal error in the checker")
        sys.exit(2)
    sys.exit(rc)


if __name__ == "__main__":
    main()
