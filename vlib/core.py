"""Core of the check orchestrator: scratch dirs, harness build, TLC runs, evidence, verdicts.

Exit codes of a check: 0 property held on everything explored; 1 VIOLATION (observed on the real code);
2 infrastructure failure (build error, TLC error on the spec alone, dead driver, timeout, OOM) - never a violation."""
import atexit, json, os, re, shutil, subprocess, sys, tempfile, time, hashlib

VERIF = os.path.dirname(os.path.dirname(os.path.abspath(__file__)))
REPO = os.environ.get("VERIF_REPO", "/repo")
SPEC = os.path.join(VERIF, "spec")
GOENV = dict(os.environ, GOFLAGS="-mod=mod", GOPROXY="off", GOSUMDB="off", GOTOOLCHAIN="local")
NCPU = os.cpu_count() or 4


def split_big(f, limit=40 << 20):
    """Split an ndjson event file into parts of at most ~limit bytes (line boundaries); returns the list of files to validate."""
    if os.path.getsize(f) <= limit:
        return [f]
    parts, out, size = [], None, 0
    with open(f) as src:
        for line in src:
            if out is None or size >= limit:
                if out:
                    out.close()
                pf = "%s.part%d" % (f, len(parts))
                out = open(pf, "w")
                parts.append(pf)
                size = 0
            out.write(line)
            size += len(line)
    if out:
        out.close()
    return parts


class Infra(Exception):
    """Infrastructure failure: exit 2."""


def cps(s):
    """Python str -> list of code points. '\\udcXX' surrogate escapes denote raw bytes (pseudo code points)."""
    out = []
    for ch in s:
        c = ord(ch)
        if 0xDC80 <= c <= 0xDCFF:
            c = 0x110000 + (c - 0xDC00)
        out.append(c)
    return out


def tla_seq(s):
    return "<<" + ",".join(str(c) for c in (cps(s) if isinstance(s, str) else s)) + ">>"


def tla_set_of_seqs(strs):
    return "{" + ", ".join(tla_seq(s) for s in strs) + "}"


def tla_set_of_cps(chars):
    return "{" + ", ".join(str(c) for c in (cps(chars) if isinstance(chars, str) else chars)) + "}"


def from_cps(a):
    out = []
    for c in a:
        if c >= 0x110000:
            out.append("\\x%02x" % (c - 0x110000))
        else:
            out.append(chr(c))
    return "".join(out)


class Run:
    """One invocation of a check: scratch directory, harness binary, accumulated coverage and verdicts."""

    def __init__(self, prop, tier, seed):
        self.prop, self.tier, self.seed = prop, tier, seed
        self.t0 = time.time()
        self.scratch = tempfile.mkdtemp(prefix="verif-%s-" % prop)
        atexit.register(self.cleanup)
        self.states = 0
        self.transitions = 0
        self.replayed = 0          # behaviours replayed on the real code
        self.validated = 0         # events recorded from the real code and validated by TLC
        self.executions = 0
        self.distinct = 0
        self.samples = []
        self.families = []         # per-family coverage records
        self.violations = []       # (description, replay path)
        self.known = []            # known-finding lines
        self.assumptions = []
        self.coverage_notes = {}
        self.vh = None
        self.exhaustive = True
        for f in os.listdir(SPEC):
            if f.endswith(".tla") or f.endswith(".cfg"):
                shutil.copy(os.path.join(SPEC, f), self.scratch)

    def cleanup(self):
        if os.environ.get("VERIF_KEEP"):
            sys.stderr.write("scratch kept: %s\n" % self.scratch)
            return
        shutil.rmtree(self.scratch, ignore_errors=True)

    # ---------- harness ----------
    def build_harness(self, race=False):
        h = os.path.join(VERIF, "harness")
        out = os.path.join(self.scratch, "vh-race" if race else "vh")
        cmd = ["go", "build", "-tags", "verif"] + (["-race"] if race else [])
        try:
            if REPO == "/repo":
                shutil.copy(os.path.join(REPO, "go.sum"), os.path.join(h, "go.sum"))
            else:
                # evaluation of a scratch worktree (seeded changes): same harness sources, module replaced by $VERIF_REPO
                mf = os.path.join(self.scratch, "alt.mod")
                with open(mf, "w") as f:
                    f.write(open(os.path.join(h, "go.mod")).read().replace("=> /repo", "=> " + REPO))
                shutil.copy(os.path.join(REPO, "go.sum"), os.path.join(self.scratch, "alt.sum"))
                cmd += ["-modfile", mf]
        except OSError as e:
            raise Infra("cannot prepare go.sum / go.mod: %s" % e)
        cmd += ["-o", out, "./cmd/vh"]
        p = subprocess.run(cmd, cwd=h, env=GOENV, capture_output=True, text=True)
        if p.returncode != 0:
            raise Infra("harness build failed (does the repository compile with -tags verif?):\n" + p.stderr[-3000:])
        if not race:
            self.vh = out
        return out

    # ---------- TLC ----------
    def tlc_cmd(self, module, cfg=None, workers=None, extra=(), heap="6g"):
        md = tempfile.mkdtemp(prefix="md-", dir=self.scratch)
        w = workers or NCPU
        cmd = ["java", "-XX:+UseParallelGC", "-XX:ParallelGCThreads=%d" % (2 if w == 1 else min(8, NCPU)), "-Xmx" + heap, "-Xss64m",
               "-cp", "/opt/veriftools/tla/tla2tools.jar:/opt/veriftools/tla/CommunityModules-deps.jar",
               "tlc2.TLC", "-workers", str(workers or NCPU), "-metadir", md, "-noGenerateSpecTE"]
        if cfg:
            cmd += ["-config", cfg]
        cmd += list(extra) + [module]
        return cmd

    def tlc(self, module, cfg=None, workers=None, extra=(), timeout=900, heap="6g", ok_codes=(0,)):
        """Run TLC to completion, return (stdout, stats)."""
        cmd = self.tlc_cmd(module, cfg, workers, extra, heap)
        try:
            p = subprocess.run(cmd, cwd=self.scratch, capture_output=True, text=True, timeout=timeout)
        except subprocess.TimeoutExpired:
            raise Infra("TLC timeout on %s" % module)
        st = tlc_stats(p.stdout)
        if p.returncode not in ok_codes:
            raise Infra("TLC failed on %s (exit %d) - the specification itself is broken or an invariant of the "
                        "design does not hold:\n%s" % (module, p.returncode, tail_errors(p.stdout)))
        self.states += st["distinct"]
        self.transitions += st["generated"]
        return p.stdout, st

    def tlc_replay(self, module, family, cfg=None, workers=None, extra=(), timeout=900, heap="6g", replay_args=(), tool="replay"):
        """Run TLC with its stdout piped into `vh replay`; return (summary, mismatches, stats)."""
        cmd = self.tlc_cmd(module, cfg, workers, extra, heap)
        mis = os.path.join(self.scratch, family + ".mis.ndjson")
        summ = os.path.join(self.scratch, family + ".sum.json")
        log = os.path.join(self.scratch, family + ".tlc.log")
        rcmd = [self.vh, tool, "--family", family, "--out", mis, "--summary", summ, "--log", log] + list(replay_args)
        t0 = time.time()
        tl = subprocess.Popen(cmd, cwd=self.scratch, stdout=subprocess.PIPE, stderr=subprocess.STDOUT)
        rp = subprocess.Popen(rcmd, cwd=self.scratch, stdin=tl.stdout, stdout=subprocess.PIPE, stderr=subprocess.PIPE, text=True)
        tl.stdout.close()
        try:
            rout, rerr = rp.communicate(timeout=timeout)
            tl.wait(timeout=60)
        except subprocess.TimeoutExpired:
            tl.kill(); rp.kill()
            raise Infra("timeout in family %s" % family)
        tlog = open(log).read() if os.path.exists(log) else ""
        st = tlc_stats(tlog)
        if tl.returncode != 0:
            raise Infra("TLC failed on family %s (exit %s):\n%s" % (family, tl.returncode, tail_errors(tlog)))
        if rp.returncode == 3:
            # the real code hung on a behaviour: that is an observed violation of C02, reported by the caller
            return {"hang": rout}, [], st
        if rp.returncode != 0:
            raise Infra("replay driver failed on family %s (exit %s): %s %s" % (family, rp.returncode, rout[-2000:], rerr[-2000:]))
        S = json.load(open(summ))
        M = [json.loads(l) for l in open(mis)] if os.path.exists(mis) else []
        self.states += st["distinct"]
        self.transitions += st["generated"]
        self.replayed += S["lines"]
        self.executions += S["executions"]
        self.distinct += S["distinct_outcomes"]
        for s in (S.get("samples") or [])[:3]:
            if len(self.samples) < 12:
                self.samples.append("[%s] %s" % (family, s))
        self.families.append({"family": family, "tlc_states_generated": st["generated"], "tlc_distinct_states": st["distinct"],
                              "behaviours_replayed": S["lines"], "real_executions": S["executions"],
                              "distinct_outcomes": S["distinct_outcomes"], "mismatches": S["mismatches"],
                              "skipped_idna": S.get("skipped_idna", 0), "wall_s": round(time.time() - t0, 1)})
        return S, M, st

    def tlc_events(self, module, family, kind, cfg=None, timeout=900, chunks=None, events_args=(), source_file=None, tool="events"):
        """TLC family (p-lines) -> `vh events` (composite events recorded from the real code) -> TLC Trace_Events.
        Returns the list of (event, verdicts) that are not ok."""
        chunks = chunks or min(12, NCPU)
        pre = os.path.join(self.scratch, "%s.%s.ev" % (family, kind))
        log = os.path.join(self.scratch, "%s.%s.tlc.log" % (family, kind))
        ecmd = [self.vh, tool] + (["--kind", kind] if tool == "events" else []) + ["--out", pre, "--chunks", str(chunks), "--log", log] + list(events_args)
        t0 = time.time()
        st = {"generated": 0, "distinct": 0}
        if source_file:
            try:
                ep = subprocess.run(ecmd + ["--in", source_file], cwd=self.scratch, capture_output=True, text=True, timeout=timeout)
            except subprocess.TimeoutExpired:
                raise Infra("timeout in the %s driver on %s" % (tool, source_file))
            if ep.returncode != 0:
                raise Infra("events driver failed: %s %s" % (ep.stdout[-1000:], ep.stderr[-2000:]))
            eout = ep.stdout
        else:
            cmd = self.tlc_cmd(module, cfg)
            tl = subprocess.Popen(cmd, cwd=self.scratch, stdout=subprocess.PIPE, stderr=subprocess.STDOUT)
            ep = subprocess.Popen(ecmd, cwd=self.scratch, stdin=tl.stdout, stdout=subprocess.PIPE, stderr=subprocess.PIPE, text=True)
            tl.stdout.close()
            try:
                eout, eerr = ep.communicate(timeout=timeout)
                tl.wait(timeout=60)
            except subprocess.TimeoutExpired:
                tl.kill(); ep.kill()
                raise Infra("timeout generating events of family %s" % family)
            tlog = open(log).read() if os.path.exists(log) else ""
            st = tlc_stats(tlog)
            if tl.returncode != 0:
                raise Infra("TLC failed on family %s (exit %s):\n%s" % (family, tl.returncode, tail_errors(tlog)))
            if ep.returncode != 0:
                raise Infra("events driver failed on family %s: %s %s" % (family, eout[-1000:], eerr[-2000:]))
        m = re.search(r"EVENTS kind=\S+ n=(\d+)", eout)
        nev = int(m.group(1)) if m else 0
        self.states += st["distinct"]
        self.transitions += st["generated"]
        bad = self.validate_events([("%s.%d" % (pre, i)) for i in range(chunks)], timeout=timeout)
        self.validated += nev
        self.executions += nev
        self.families.append({"family": family + "/" + kind, "tlc_states_generated": st["generated"], "tlc_distinct_states": st["distinct"],
                              "impl_events_recorded": nev, "events_not_ok": len(bad), "wall_s": round(time.time() - t0, 1)})
        return bad, nev

    def validate_events(self, files, timeout=900, module="Trace_Events", cfg_body=None):
        """Run single-worker TLC validators over the event files (in parallel); return [(event, verdicts)] for events that are not ok."""
        # a validator deserializes its whole file (Json!ndJsonDeserialize): files above ~40 MB are split so that the 2 GB heap is never
        # under pressure (a 250 MB event file made TLC crawl), and at most NCPU - 2 validators run at a time
        parts = []
        for f in files:
            if os.path.exists(f) and os.path.getsize(f) > 0:
                # only the stateless composite events may be cut anywhere; a recorded history (Trace_Api) must stay in one piece
                parts += split_big(f) if module == "Trace_Events" else [f]
        width = max(2, min(14, NCPU - 2))
        bad = []
        t_end = time.time() + timeout
        for w0 in range(0, len(parts), width):
            procs = []
            for i, f in enumerate(parts[w0:w0 + width]):
                cfg = os.path.join(self.scratch, "%s_%d_%s.cfg" % (module, w0 + i, os.path.basename(f).replace(".", "_")))
                with open(cfg, "w") as c:
                    c.write(('CONSTANT TraceFile = "%s"\n' % f) + (cfg_body or 'INIT Init\nNEXT Next\nINVARIANT Done\nCHECK_DEADLOCK FALSE\nPOSTCONDITION AllConsumed\n'))
                cmd = self.tlc_cmd(module, cfg, workers=1, heap="2g")
                procs.append((f, subprocess.Popen(cmd, cwd=self.scratch, stdout=subprocess.PIPE, stderr=subprocess.STDOUT, text=True)))
            for f, p in procs:
                try:
                    out, _ = p.communicate(timeout=max(1, t_end - time.time()))
                except subprocess.TimeoutExpired:
                    for _, p2 in procs:
                        p2.kill()
                    raise Infra("trace validation timeout on %s" % f)
                m = re.search(r'<<"VERDICTS", (\d+), (".*")>>', out)
                if p.returncode != 0 or not m:
                    for _, p2 in procs:
                        p2.kill()
                    raise Infra("trace validation failed on %s (exit %s):\n%s" % (f, p.returncode, tail_errors(out)))
                st = tlc_stats(out)
                self.states += st["distinct"]
                self.transitions += st["generated"]
                verdicts = json.loads(json.loads(m.group(2)))
                if verdicts:
                    lines = open(f).read().splitlines()
                    for v in verdicts:
                        ev = json.loads(lines[v["i"] - 1])
                        ev["_src"] = [f, v["i"]]       # where the event came from (file, 1-based line): lets a check look at the history before it
                        bad.append((ev, v["v"]))
        return bad

    def record_and_validate(self, n, seed_salt=0, maxlen=90, parse_only=50, chunks=None, pinned=None, host_alphabet=None, host_len=3, parser=None, scan=None):
        """T-mode: seeded random drivers on the real code (vh record) -> TLC (Trace_Api.tla). Returns [(event, verdicts)]."""
        chunks = chunks or min(12, NCPU)
        pre = os.path.join(self.scratch, "trace%d.ev" % seed_salt)
        cmd = [self.vh, "record", "--seed", str(self.seed * 1000 + seed_salt), "--n", str(n), "--out", pre, "--chunks", str(chunks),
               "--corpus", os.path.join(VERIF, "vectors", "urltestdata.json"), "--maxlen", str(maxlen), "--parse-only-percent", str(parse_only)]
        if pinned:
            cmd += ["--pinned", json.dumps(pinned)]
        if scan:
            # novelty scan (harness/cmd/vh/scan.go): explore scan[0] generated calls on the real code, record the scan[1] rarest behaviour classes
            cmd += ["--scan", str(scan[0]), "--scan-keep", str(scan[1]), "--scan-setter-percent", str(scan[2])] + (["--scan-vocab", scan[3]] if len(scan) > 3 and scan[3] else [])
        if host_alphabet:
            cmd += ["--host-alphabet", json.dumps(host_alphabet), "--host-len", str(host_len)]
        module = "Trace_Api"
        popts = "DefaultOpts"
        if parser:
            # histories on a parser built with an option whose effect the specification models exactly: validate against the spec run with that option record
            cmd += ["--parser", parser]
            module = "T_%s_%d" % (re.sub(r"\W", "_", parser), seed_salt)
            with open(os.path.join(self.scratch, module + ".tla"), "w") as f:
                f.write('---- MODULE %s ----\nEXTENDS Trace_Api\nF_POpts == OptsOf("%s")\n====\n' % (module, parser))
            popts = "F_POpts"
        t0 = time.time()
        p = subprocess.run(cmd, cwd=self.scratch, capture_output=True, text=True, timeout=600)
        m = re.search(r"EVENTS kind=record n=(\d+) histories=(\d+)", p.stdout)
        if p.returncode != 0 or not m:
            raise Infra("record driver failed: %s %s" % (p.stdout[-1000:], p.stderr[-2000:]))
        body = ('CONSTANTS\n NH = 3\n Dev <- DevImpl\n WithRT = FALSE\n WithLaw = FALSE\n POpts <- ' + popts + '\nINIT TInit\nNEXT TNext\nINVARIANT Done\n'
                'CHECK_DEADLOCK FALSE\nPOSTCONDITION AllConsumed\n')
        bad = self.validate_events(["%s.%d" % (pre, i) for i in range(chunks)], module=module, cfg_body=body)
        nev = int(m.group(1))
        self.validated += nev
        self.executions += nev
        ms = re.search(r"SCAN explored=(\d+) classes=(\d+) kept=(\d+)", p.stdout)
        if ms:
            self.executions += int(ms.group(1))
            self.families.append({"family": "novelty-scan/%d" % seed_salt, "impl_calls_explored": int(ms.group(1)), "behaviour_classes": int(ms.group(2)),
                                  "representatives_recorded": int(ms.group(3)), "impl_events_validated_by_tlc": nev, "events_not_ok": len(bad), "wall_s": round(time.time() - t0, 1)})
            return bad, nev
        self.families.append({"family": "recorded-traces/%d" % seed_salt, "impl_events_recorded": nev, "histories": int(m.group(2)), "events_not_ok": len(bad),
                              "wall_s": round(time.time() - t0, 1)})
        return bad, nev

    # ---------- self-test of the oracle ----------
    def selftest(self):
        p = subprocess.run([sys.executable, os.path.join(VERIF, "tools", "prep_vectors.py"), os.path.join(VERIF, "vectors"), self.scratch],
                           capture_output=True, text=True)
        if p.returncode != 0:
            raise Infra("prep_vectors failed: " + p.stderr)
        for mod, n in (("Selftest_Wpt", 820), ("Selftest_Setters", 247)):
            out, st = self.tlc(mod, workers=1, timeout=300, heap="2g")
            m = re.search(r'<<"SELFTEST", (\d+), (\d+),', out)
            if not m or int(m.group(1)) != n or int(m.group(2)) != 0:
                raise Infra("oracle self-test failed: %s: %s" % (mod, out[-1500:]))
        self.assumptions.append("oracle self-test passed on this run: spec agrees with 820/820 WPT urltestdata vectors and 247/247 setters_tests vectors")

    # ---------- verdicts ----------
    def write_replay(self, obj, tag):
        d = os.path.join(VERIF, "replays")
        os.makedirs(d, exist_ok=True)
        body = json.dumps(obj, indent=1, sort_keys=True)
        name = "%s-%s-%s.json" % (self.prop, tag, hashlib.sha1(body.encode()).hexdigest()[:10])
        path = os.path.join(d, name)
        with open(path, "w") as f:
            f.write(body + "\n")
        return path

    def violation(self, desc, replay_obj, tag="v"):
        path = self.write_replay(replay_obj, tag)
        self.violations.append((desc, path))

    def finish(self, level, rule, extra_cov=None):
        wall = time.time() - self.t0
        cov = {
            "states": self.states, "transitions": self.transitions,
            "traces_validated_against_impl": self.replayed + self.validated,
            "behaviours_replayed_on_impl": self.replayed, "impl_events_validated_by_tlc": self.validated,
            "evaluations": max(self.executions, self.replayed + self.validated, 1),
            "distinct_nontrivial": self.distinct,
            "rule": rule, "samples": self.samples[:12] or ["(none)"], "families": self.families,
            "exhaustive": self.exhaustive,
        }
        cov.update(self.coverage_notes)
        if extra_cov:
            cov.update(extra_cov)
        ev = {"property_id": self.prop, "tier": self.tier, "seed": self.seed, "level": level, "coverage": cov,
              "assumptions": self.assumptions, "wall_s": round(wall, 1), "violations": len(self.violations),
              "known_findings": self.known}
        # evidence/ describes runs against /repo itself; the evaluation of a scratch worktree ($VERIF_REPO) is kept apart (replays/ is not committed)
        evdir = os.path.join(VERIF, "evidence") if REPO == "/repo" else os.path.join(VERIF, "replays", "evidence-scratch")
        os.makedirs(evdir, exist_ok=True)
        with open(os.path.join(evdir, self.prop + ".json"), "w") as f:
            json.dump(ev, f, indent=1)
            f.write("\n")
        for k in self.known:
            print("KNOWN-FINDING: property=%s %s" % (self.prop, k))
        seen = set()
        for desc, path in self.violations[:20]:
            if path in seen:
                continue
            seen.add(path)
            print("VIOLATION property=%s replay=%s" % (self.prop, path))
            print("  " + desc)
        print("%s %s tier=%s seed=%d states=%d transitions=%d replayed=%d validated=%d violations=%d known=%d wall=%.1fs" % (
            "FAIL" if self.violations else "PASS", self.prop, self.tier, self.seed, self.states, self.transitions,
            self.replayed, self.validated, len(self.violations), len(self.known), wall))
        return 1 if self.violations else 0


def tlc_stats(out):
    gen = dist = 0
    for m in re.finditer(r"(\d+) states generated, (\d+) distinct states found", out):
        gen, dist = int(m.group(1)), int(m.group(2))
    return {"generated": gen, "distinct": dist}


def tail_errors(out):
    lines = out.splitlines()
    keep = [l for l in lines if not l.startswith('"')]
    idx = [i for i, l in enumerate(keep) if "Error" in l or "error" in l or "violated" in l]
    if idx:
        return "\n".join(keep[idx[0]:idx[0] + 40])[:4000]
    return "\n".join(keep[-30:])[:4000]
