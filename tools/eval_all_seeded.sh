#!/bin/sh
# tools/eval_all_seeded.sh : re-confirm every archived seeded change and run the quick check of the property it breaks against it
cd "$(dirname "$0")/.."
for d in $(pwd)/seeded/*/; do
  n=$(basename $d)
  prop=$(python3 -c "import json;print(json.load(open('$d/meta.json'))['breaks_property'])")
  pkg=$(python3 -c "import json;print(json.load(open('$d/meta.json'))['demo_package_dir'])")
  out=$(timeout 1500 tools/eval_seeded.sh $d $pkg $prop 2>&1)
  rc=$(echo "$out" | grep "^check $prop" | sed 's/.*rc=\([0-9]*\).*/\1/')
  echo "$n $prop detected_rc=$rc $(echo "$out" | grep -c REJECT | sed 's/^/rejects=/')"
done
