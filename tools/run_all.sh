#!/bin/sh
# tools/run_all.sh [tier] [seed] : run every registered check once, print one line each
TIER=${1:-quick}; SEED=${2:-1}
cd "$(dirname "$0")/.."
for i in 01 02 03 04 05 06 07 08 09 10 11 12 13 14 15 16 17 18 19 20; do
  s=$(date +%s)
  VERIF_SEED=$SEED bin/check C$i --tier $TIER > /tmp/runall-C$i-$TIER-$SEED.out 2>&1
  rc=$?
  e=$(date +%s)
  echo "C$i rc=$rc $((e-s))s $(grep -E '^(PASS|FAIL|INFRA)' /tmp/runall-C$i-$TIER-$SEED.out | tail -1 | cut -c1-160)"
done
