#!/usr/bin/env python3
"""tools/keep_seeded.py <name> <property> <pkg> <needs> <detected_by> <missed_before>: archive a confirmed seeded change under /verif/seeded/<name>/"""
import json, os, shutil, sys
name, prop, pkg, needs, detected, missed = sys.argv[1:7]
src = "/tmp/seeded/" + (sys.argv[7] if len(sys.argv) > 7 else prop)
d = os.path.join("/verif/seeded", name)
os.makedirs(d, exist_ok=True)
shutil.copy(os.path.join(src, "patch.diff"), os.path.join(d, "patch.diff"))
shutil.copy(os.path.join(src, "demo_test.go"), os.path.join(d, "demo_test.go"))
meta = {"breaks_property": prop, "demo_package_dir": pkg, "what": open(os.path.join(src, "meta.txt")).read().strip(), "needs_to_manifest": needs,
        "confirmed": "tools/eval_seeded.sh: in a scratch worktree the patch compiles, the repository's suite passes with it, the demo test passes without it and fails with it",
        "ran": "VERIF_REPO=<scratch worktree with the patch> bin/check <id> --tier quick (tools/eval_seeded.sh)", "detected_by": detected, "missed_before_strengthening": missed,
        "origin": "independent sub-agent given only the property text and its own worktree"}
json.dump(meta, open(os.path.join(d, "meta.json"), "w"), indent=1)
print("kept", d)
