#!/usr/bin/env python3
"""Convert the committed WPT vectors (vectors/*.json) into ndjson with text as code-point arrays,
for the specification self-test (Selftest_Wpt.tla / Selftest_Setters.tla)."""
import json, sys, os

def cps(s):
    out = []
    for ch in s:
        c = ord(ch)
        if 0xD800 <= c <= 0xDFFF:   # lone surrogate in a JS string -> U+FFFD (USVString conversion)
            c = 0xFFFD
        out.append(c)
    return out

KEYS = ["href", "protocol", "username", "password", "host", "hostname", "port", "pathname", "search", "hash"]

def main(vecdir, outdir):
    raw = json.load(open(os.path.join(vecdir, "urltestdata.json"), encoding="utf-8"))
    n = 0
    with open(os.path.join(outdir, "wpt.ndjson"), "w") as f:
        for t in raw:
            if not isinstance(t, dict):
                continue
            n += 1
            e = {"id": n, "input": cps(t["input"]), "base": [cps(t["base"])] if t.get("base") is not None else [],
                 "fail": bool(t.get("failure", False))}
            for k in KEYS:
                e[k] = cps(t.get(k, "")) if not e["fail"] else []
            f.write(json.dumps(e) + "\n")
    raw = json.load(open(os.path.join(vecdir, "setters_tests.json"), encoding="utf-8"))
    m = 0
    with open(os.path.join(outdir, "setters.ndjson"), "w") as f:
        for op, tests in raw.items():
            if op in ("comment", "href"):   # the library has no href setter
                continue
            for t in tests:
                m += 1
                exp = t["expected"]
                hn = None
                if "hostname" in exp:
                    hn = exp["hostname"]
                elif "host" in exp:
                    h = exp["host"]
                    hn = h if h.startswith("[") and h.endswith("]") else h.rsplit(":", 1)[0] if ":" in h and not h.endswith("]") else h
                e = {"id": m, "op": op, "href": cps(t["href"]), "value": cps(t["new_value"]),
                     "idna": [cps(hn)] if hn is not None else [],
                     "has": sorted(exp.keys()), "exp": {k: cps(exp.get(k, "")) for k in KEYS}}
                f.write(json.dumps(e) + "\n")
    print(n, m)

if __name__ == "__main__":
    main(sys.argv[1], sys.argv[2])
