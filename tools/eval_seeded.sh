#!/bin/sh
# tools/eval_seeded.sh <dir with patch.diff + demo_test.go> <demo package dir (url|canonicalizer)> <check ids...>
# 1. confirms the seeded change in a scratch worktree: compiles, repo suite passes, demo fails with / passes without the change
# 2. runs the given checks (quick tier) against that worktree (VERIF_REPO) - /repo itself is never touched
D=$1; PKG=$2; shift 2
export GOFLAGS=-mod=mod GOPROXY=off GOSUMDB=off GOTOOLCHAIN=local
WT=/tmp/wt/eval-$$
git -C /repo worktree add -q --detach $WT HEAD || exit 2
trap 'git -C /repo worktree remove --force $WT >/dev/null 2>&1' EXIT
cd $WT
cp $D/demo_test.go $WT/$PKG/zz_seeded_demo_test.go
if go test -vet=off -count=1 -run TestSeededDemo ./$PKG/ >/tmp/eval-$$.log 2>&1; then echo "demo passes WITHOUT the change: ok"; else echo "demo FAILS without the change: REJECT"; tail -5 /tmp/eval-$$.log; exit 3; fi
rm $WT/$PKG/zz_seeded_demo_test.go
git apply $D/patch.diff || { echo "patch does not apply: REJECT"; exit 3; }
if go build ./... && go test -vet=off -count=1 ./... >/tmp/eval-$$.log 2>&1; then echo "suite passes WITH the change: ok"; else echo "suite FAILS with the change: REJECT"; tail -5 /tmp/eval-$$.log; exit 3; fi
cp $D/demo_test.go $WT/$PKG/zz_seeded_demo_test.go
RACE=""; grep -q "go test -race\|-race" $D/demo_test.go $D/meta.txt 2>/dev/null && RACE="-race"
if go test $RACE -vet=off -count=1 -run TestSeededDemo ./$PKG/ >/tmp/eval-$$.log 2>&1; then echo "demo PASSES with the change: REJECT"; exit 3; else echo "demo fails WITH the change: ok"; fi
rm $WT/$PKG/zz_seeded_demo_test.go
for c in "$@"; do
  s=$(date +%s)
  (cd ${VDIR:-/verif} && VERIF_REPO=$WT bin/check $c --tier ${TIER:-quick} > /tmp/eval-$$-$c.out 2>&1); rc=$?
  e=$(date +%s)
  echo "check $c rc=$rc $((e-s))s: $(grep -E '^(PASS|FAIL|INFRA)' /tmp/eval-$$-$c.out | tail -1 | cut -c1-150)"
  grep -A1 '^VIOLATION' /tmp/eval-$$-$c.out | grep '^  ' | head -3 | cut -c1-260
done
