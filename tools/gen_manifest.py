#!/usr/bin/env python3
"""Generates /verif/MANIFEST.json from the table below (single source of truth for the interface)."""
import json, os, subprocess
V = os.path.dirname(os.path.dirname(os.path.abspath(__file__)))

TB = ("TLC and the CommunityModules JSON reader; the Go projection code (harness/internal/proj); the transcription of the "
      "standard in spec/*.tla, self-tested against 820 WPT parse vectors and 247 WPT setter vectors on every run")

# id -> (built, category, technique, level text, level note, design ref)
P = {}
def prop(i, built, cat, tech, text, note, ref):
    P[i] = dict(built=built, cat=cat, tech=tech, text=text, note=note, ref=ref)

prop("C01", True, "model_checking",
     "TLA+ transcription of the basic URL parser; TLC enumerates every input over branch-character alphabets x bases, one step per parser-loop iteration; every terminal state replayed on the real code; recorded random traces validated by TLC",
     "Exhaustive within stated bounds (strings up to 4-10 code points over 10 family alphabets x up to 7 bases), exploration beyond them through recorded traces; equality of failure flag, serialization and all nine component getters through all three entry points.",
     TB + "; IDNA mapping taken as given.", "DESIGN.md section 4/C01")

NOT_YET = "check under construction in this session (see DESIGN.md section 4 for the planned decision procedure)"

def main():
    checks, na = [], []
    ids = [json.loads(l)["id"] for l in open(os.path.join(V, "properties.jsonl"))]
    for i in ids:
        p = P.get(i)
        if not p or not p["built"]:
            na.append({"property_id": i, "reason": (p or {}).get("na_reason", NOT_YET)})
            continue
        c = {"property_id": i,
             "quick_cmd": "bin/check %s --tier quick" % i,
             "thorough_cmd": "bin/check %s --tier thorough" % i,
             "evidence_file": "/verif/evidence/%s.json" % i,
             "replay_cmd_template": "bin/check %s --replay {path}" % i,
             "engine": "tlc+replay",
             "level_claimed": {"category": p["cat"], "text": p["text"], "design_ref": p["ref"]},
             "level_note": p["note"],
             "technique": p["tech"]}
        checks.append(c)
    hooks_commits = subprocess.run(["git", "-C", "/repo", "log", "--format=%H", "--grep=^verif hooks"], capture_output=True, text=True).stdout.split()
    m = {"version": 1,
         "setup_cmd": "bin/setup",
         "hooks": {"guard": "verif (Go build tag)", "enable": "go build -tags verif (the harness module replaces github.com/nlnwa/whatwg-url with /repo)",
                   "baseline_off_cmd": "cd /repo && go test -mod=mod -json -vet=off -count=1 -timeout 25m ./...",
                   "source_commits": hooks_commits, "add_only": True},
         "engines": [{"name": "tlc+replay", "path": "bin/check", "serves_properties": [c["property_id"] for c in checks],
                      "kind_free_text": "explicit TLA+ specification (spec/*.tla) checked by TLC; bound to the code by replaying TLC-generated behaviours on the real library (harness/cmd/vh replay) and by validating traces recorded from the real library against the specification (Trace_*.tla)"}],
         "checks": checks,
         "not_applicable": na,
         "notes": "One specification, spec/*.tla; bin/check <ID> --tier quick|thorough rebuilds the Go harness from /repo's working tree with -tags verif on every run. Exit 2 = infrastructure failure (never a violation). Known findings: known_findings.json."}
    with open(os.path.join(V, "MANIFEST.json"), "w") as f:
        json.dump(m, f, indent=1)
        f.write("\n")
    print("MANIFEST.json: %d checks, %d not_applicable" % (len(checks), len(na)))

if __name__ == "__main__":
    main()
