#!/usr/bin/env python3
"""Generates /verif/MANIFEST.json from the table below (single source of truth for the interface)."""
import json, os, subprocess
V = os.path.dirname(os.path.dirname(os.path.abspath(__file__)))

TB = ("TLC and the CommunityModules JSON reader; the Go projection code (harness/internal/proj); the transcription of the "
      "standard in spec/*.tla, self-tested against 820 WPT parse vectors and 247 WPT setter vectors on every run")

# id -> (built, category, technique, level text, level note, design ref)
P = {}
def prop(i, built, cat, tech, text, note, ref):
    P[i] = dict(built=built, cat=cat, tech=tech, text=text, note=note, ref=ref)

prop("C01", True, "model_checking",
     "TLA+ transcription of the basic URL parser; TLC enumerates every input over branch-character alphabets x bases, one step per parser-loop iteration; every terminal state replayed on the real code; recorded random traces validated by TLC; novelty scan: the driver explores ~1 M token-generated calls on the real code and the rarest behaviour classes are recorded and validated by TLC (Trace_Api)",
     "Exhaustive within stated bounds (strings up to 4-10 code points over 10 family alphabets x up to 7 bases), exploration beyond them through recorded traces; equality of failure flag, serialization and all nine component getters through all three entry points.",
     TB + "; IDNA mapping taken as given.", "DESIGN.md section 4/C01")

HT = "history (H-mode) families of the object machine spec/UrlApi.tla: bounded trees + closure (VIEW = abstract state) emitted by TLC, every state/transition replayed on the real API with all live handles projected after every step"
prop("C03", True, "model_checking",
     "TLC invariant RoundTrip on every parser output; expected re-parse result computed by the spec for every state of the setter trees/closure; replay re-parses the real serialization; novelty scan: the driver explores ~1 M token-generated calls on the real code and the rarest behaviour classes are recorded and validated by TLC (Trace_Api)",
     "Exhaustive within the bounds of the C01 parse families and the C05 setter families. Parser outputs must re-parse to themselves (TLC proves the same of the spec); after setters the code must re-parse exactly as the standard does, which also covers the standard's own non-round-tripping states (computed, not hard-coded).",
     TB + "; IDNA-dependent hosts are excluded from E/H families (covered by recorded traces).", "DESIGN.md section 4/C03")
prop("C04", True, "model_checking",
     "TLC invariants WellFormed/ComponentsOk/CompositionG/DerivedG on every reachable state of the object machine and the parse families; " + HT + "; novelty scan: the driver explores ~1 M token-generated calls on the real code and the rarest behaviour classes are recorded and validated by TLC (Trace_Api)",
     "The invariants are established on the specification by TLC over closures and bounded trees (setters, resolve of further references, clone); the code is bound by equality of Href, Href(true), the nine components, Scheme, Query, Fragment, OpaquePath, IsSpecialScheme with the specification state after every step.",
     TB, "DESIGN.md section 4/C04")
prop("C05", True, "model_checking",
     "TLA+ transcription of the nine API setters (self-tested on 247 WPT vectors); " + HT + "; novelty scan: the driver explores ~1 M token-generated (start URL, setter, value) calls on the real code and the rarest behaviour classes are recorded and validated by TLC (Trace_Api)",
     "All setter histories up to depth 2-3 over value alphabets built to hit every guard and early return, from 17 start URLs, plus closures under seed-chosen op sub-alphabets; equality of serialization and the nine components after every call.",
     TB, "DESIGN.md section 4/C05")
prop("C11", True, "model_checking",
     "list machine (FormUrlencoded.tla + UrlApi.tla) explored by TLC; stored list via snapshot hook, readers, Href and the codec law evaluated on the real code after every step",
     "Closure and bounded trees over append/delete/set/sort/sortAbsolute with delimiter-bearing names/values; every query string over the delimiter alphabet up to the bound is parsed and its list compared. The library's serializer is modelled as a named deviation; the codec law is evaluated on the real code and predicted by the spec; its known failure (finding F03) is characterised by a spec predicate.",
     TB + "; the verif-tag snapshot hook (reads the stored list without write-through).", "DESIGN.md section 4/C11")
prop("C12", True, "model_checking",
     "UrlApi.tla Sync / WriteThrough; " + HT,
     "All interleavings (bounded trees + closure) of SearchParams mutations, SetSearch and other setters; Href, Query, Search and the stored list compared after every step with the handle taken before the first call and afresh.",
     TB + "; snapshot hook.", "DESIGN.md section 4/C12")
prop("C13", True, "model_checking",
     "UrlApi.tla Independence action property over three handles; " + HT + "; aliasing also read directly through the snapshot hook",
     "Parse, resolve, clone, then any setter / SearchParams mutation on either side, depth-bounded exhaustively; ALL live handles are projected after every call (19 getters + stored list), so a write to the wrong object is seen at the step it happens.",
     TB + "; snapshot hook.", "DESIGN.md section 4/C13")
prop("C19", True, "model_checking",
     "derived accessors defined as functions of the primary components in the spec (DerivedG, TLC invariant); " + HT + "; novelty scan (rarest behaviour classes of ~0.7 M generated calls, validated by TLC)",
     "IsIPv4, IsIPv6, DecodedPort, Scheme, Query, Fragment, OpaquePath, IsSpecialScheme, Href(true) compared after every step of parse/resolve/setter/clone histories and on the host parse families.",
     TB, "DESIGN.md section 4/C19")

EV = "composite events recorded from the real code for every (input, base) of TLC-enumerated families and validated by TLC (spec/Trace_Events.tla evaluates the relation on observed values)"
prop("C06", True, "model_checking",
     "laws are TLC invariants of the specification (MC_Parse LawSelf/LawEmpty/LawHash/LawQuery/LawScheme/LawOpaqueBase); " + EV,
     "Design: the laws hold on every terminal state of the struct family x bases in the specification. Binding: for every enumerated (input, base) the three entry points, Href(u) against 7 bases, '', '#f', '?q' and 12 scheme-less references are executed on the real code; TLC evaluates the relations on the observed values only (model-independent).",
     TB, "DESIGN.md section 4/C06")
prop("C07", True, "model_checking",
     "host sub-model spec/MC_Host.tla: one TLC state per host string; IPv4 design invariants (independent formulation of 'ends in a number'); every string replayed in http, ws, file and non-special URLs",
     "Every host string up to length 4-5 over {0 1 7 8 9 x X a f g . - +} plus narrow-deep alphabets ({0 1 .} to 9-11, radix, range) - exhaustive within bounds; equality of failure flag, hostname, serialization, IsIPv4.",
     TB, "DESIGN.md section 4/C07")
prop("C08", True, "model_checking",
     "MC_Host.tla: IPv6 text side (bodies and bracket arrangements) and value side (all 3^8 zero-run patterns x alternative spellings); serializer = independent canonical text and parse(serialize(a)) = a are TLC invariants; replay",
     "Text side exhaustive up to the bounds; the 2^128 values are covered by zero-run patterns exhaustively (positions, lengths, ties), not by value.",
     TB, "DESIGN.md section 4/C08")
prop("C09", True, "model_checking",
     "MC_Host.tla: exact prediction for pure-ASCII non-ACE hosts; TLC-generated spelling classes (case flips, whole-code-point percent-encoding) whose real hostnames must coincide",
     "Exact part exhaustive over the ASCII alphabet up to the bound; relational part over 10-19 base hosts (ASCII, mapped, ignored, bidi, joiner, full-width, ACE) x all spellings with up to 2-3 varied code points. IDNA tables are taken as given.",
     TB + "; golang.org/x/net/idna is not modelled.", "DESIGN.md section 4/C09")
prop("C10", True, "model_checking",
     "spec tables vs the standard's lists (TLC), exhaustive comparison with the real sets on all 0x110000 code points; copy-on-derive history machine; codec laws as TLC invariants + byte-exact replay (spec/MC_Codec.tla)",
     "Set membership: exhaustive (finite table). Derivation sequences up to depth 2-3, every registry entry fingerprinted after every step. Codec laws: every string up to length 3-5 over a 10-character class alphabet x 10 named/derived sets.",
     TB, "DESIGN.md section 4/C10")
prop("C15", True, "model_checking",
     "choke-point model spec/Diag.tla checked for all event sequences up to 5 (and refuted, as a non-vacuity check, when a fatal event does not stop); " + EV + "; the standard's validation-error inventory (spec/Diagnostics.tla) compared with the recorded types as information only (notes, never a verdict)",
     "For every (input, base) of the parse families the four configurations are run on the real code; TLC evaluates reporting == default, fail-on-VE subset/same URL/accepts exactly the silent inputs, documented error types, failure flags.",
     TB + "; the table of documented error identifiers (harness/cmd/vh/errnames.go, generated from errors/codes.go).", "DESIGN.md section 4/C15")

prop("C14", True, "model_checking",
     "interleaving model spec/Conc.tla (all schedules of the shared-memory access programs of read-only calls; refuted with the LazyInitOnClone deviation as non-vacuity check); write-set traces validated by TLC against ConcProg!WritesOf; goroutine drivers under the Go race detector",
     "Design: NoRace/TablesFrozen/ResultsAsAlone on all interleavings of 3 goroutines x 4 call kinds. Binding: every read-only call of the drivers is bracketed by snapshots of every shared object (base record incl. the lazily created list, parser options, package tables) and must have the empty write set - deterministic; plus 8-16 goroutines x 24-60 rounds under -race with results compared with the sequential run.",
     TB + "; the Go race detector; snapshot/fingerprint hooks. Blind to races on paths no driver executes.", "DESIGN.md section 4/C14")
prop("C20", True, "exploration",
     "work model in the spec's parser state (TLC: WorkBound, per-pump increment) + pump families extracted by TLC from the cycles of the parser's control-state graph (spec/MC_Pump.tla), measured on the real code as allocation growth between n and 4n",
     "The specification decides only the design half (the algorithm is linear); the implementation half is a measurement over model-derived families (about 700 (control state, unit, suffix) families + named and API-level ones), ratio threshold 9 (linear 4-6, quadratic 16). Claimed as exploration.",
     "runtime.MemStats (TotalAlloc, Mallocs) with the GC off on one goroutine; thresholds from measurement (DESIGN.md section 3); CPU work that allocates nothing is not measured.", "DESIGN.md section 4/C20")

prop("C02", True, "model_checking",
     "termination (<>done under WF) and cursor bounds of the spec's parser by TLC; robustness events (about 900 public calls per (input, configuration) under recover() + watchdog) validated by TLC against the action result' in {error} U AnyUrl",
     "Design half exhaustive on the struct family. Implementation half is a systematic exploration: TLC-enumerated nasty inputs (raw invalid bytes at every position, NUL, delimiters) and pumped long inputs x configurations rotating through every boolean option, every pair (thorough: all 2^10 subsets), valued options, mixtures and the four profiles x a fixed menu of parse / resolve / clone / setter / SearchParams calls.",
     TB + "; recover() and a 20 s watchdog in the driver. BasicParser misuse (arbitrary override, nil arguments) is out of the property's quantifier.", "DESIGN.md section 4/C02")
prop("C16", True, "model_checking",
     "spec/Options.tla: each option as [trigger, option record / setter composition / postcondition]; trigger sufficiency checked by TLC on the spec; (input x option) composite events from the real code validated by TLC",
     "Neutrality outside the trigger for the six relaxing options (alone and combined), exact prediction for special schemes, the five replaced percent-encode sets, remove-user-info/port/fragment (standard's setters), default-scheme, skip-equals (list machine), no-option parsers/profiles (also ParseRef with an empty base, and a profile's ParseRef against opaque-path bases); postconditions for collapse, single-percent, sort-query. Recorded random HISTORIES (parse / resolve / setters / SearchParams / clone) on parsers built with the special-scheme tables and replaced sets are validated against the specification run with the option record; the same on parsers with collapse / single-percent / skip-drive / accept-invalid, where a mismatch counts only if no input of the history so far contains the trigger (neutrality on histories).",
     TB, "DESIGN.md section 4/C16")
prop("C17", True, "model_checking",
     "exact TLA+ model of the canonicalizer pipeline (spec/Canon.tla CanonRun: default-scheme retry, repeated percent-decoding re-entered through the standard's setters, remove-*, sort-query on the list machine; GoogleSafeBrowsing and Semantic as option records incl. lax host / accept-invalid / Latin-1) + the fixed-point law; both evaluated by TLC on outputs observed from the real profiles",
     "For WhatWg, WhatWgSortQuery and 9 option-composed profiles the OUTPUT of every string of the parse families is predicted by the specification and compared (so a wrong canonical form is caught even when it is a fixed point); for GoogleSafeBrowsing and Semantic the output is predicted for every string too (lax host parsing, accept-invalid-code-points and the Latin-1 override are modelled in spec/BasicParser.tla), and the fixed-point law is demanded of them on every spelling of the TLC-enumerated ordinary-web-URL grammar. A token-generated space of 2.5 M (quick) / 57 M (thorough) (input, profile) pairs is additionally scanned by the driver on the real code; law failures and a sample of the rest are validated by TLC. Known findings F03 / F14 are characterised by spec-evaluated predicates on the list stored in the first output.",
     TB, "DESIGN.md section 4/C17, 10.1")
prop("C18", True, "model_checking",
     "variation operators of spec/Canon.tla (18 structural variations + escapes at segment / parameter name / value / fragment); TLC emits classes (abstract URL x all combinations of up to 2-3 variations); class equality evaluated by TLC on real outputs; for standard-normalised variations TLC also proves equality on the spec (StdClassInv)",
     "Classes over seed-chosen word sets of the grammar, two-parameter queries; all profiles on standard-normalised classes, GoogleSafeBrowsing / Semantic / repeated-decoding profiles on the full variation list.",
     TB, "DESIGN.md section 4/C18")
NOT_YET = "check under construction in this session (see DESIGN.md section 4 for the planned decision procedure)"

def main():
    checks, na = [], []
    ids = [json.loads(l)["id"] for l in open(os.path.join(V, "properties.jsonl"))]
    for i in ids:
        p = P.get(i)
        if not p or not p["built"]:
            na.append({"property_id": i, "reason": (p or {}).get("na_reason", NOT_YET)})
            continue
        c = {"property_id": i,
             "quick_cmd": "bin/check %s --tier quick" % i,
             "thorough_cmd": "bin/check %s --tier thorough" % i,
             "evidence_file": "/verif/evidence/%s.json" % i,
             "replay_cmd_template": "bin/check %s --replay {path}" % i,
             "engine": "tlc+replay",
             "level_claimed": {"category": p["cat"], "text": p["text"], "design_ref": p["ref"]},
             "level_note": p["note"],
             "technique": p["tech"]}
        checks.append(c)
    hooks_commits = subprocess.run(["git", "-C", "/repo", "log", "--format=%H", "--grep=^verif hooks"], capture_output=True, text=True).stdout.split()
    m = {"version": 1,
         "setup_cmd": "bin/setup",
         "hooks": {"guard": "verif (Go build tag)", "enable": "go build -tags verif (the harness module replaces github.com/nlnwa/whatwg-url with /repo)",
                   "baseline_off_cmd": "cd /repo && go test -mod=mod -json -vet=off -count=1 -timeout 25m ./...",
                   "source_commits": hooks_commits, "add_only": True},
         "engines": [{"name": "tlc+replay", "path": "bin/check", "serves_properties": [c["property_id"] for c in checks],
                      "kind_free_text": "explicit TLA+ specification (spec/*.tla) checked by TLC; bound to the code by replaying TLC-generated behaviours on the real library (harness/cmd/vh replay) and by validating traces recorded from the real library against the specification (Trace_*.tla)"}],
         "checks": checks,
         "not_applicable": na,
         "notes": "One specification, spec/*.tla; bin/check <ID> --tier quick|thorough rebuilds the Go harness from /repo's working tree with -tags verif on every run. Exit 2 = infrastructure failure (never a violation). Known findings: known_findings.json."}
    with open(os.path.join(V, "MANIFEST.json"), "w") as f:
        json.dump(m, f, indent=1)
        f.write("\n")
    print("MANIFEST.json: %d checks, %d not_applicable" % (len(checks), len(na)))

if __name__ == "__main__":
    main()
