#!/usr/bin/env python3
"""Rewrites section 12 of DESIGN.md from seeded/*/meta.json."""
import json, os, re
V = os.path.dirname(os.path.dirname(os.path.abspath(__file__)))
rows = []
for d in sorted(os.listdir(os.path.join(V, "seeded"))):
    mp = os.path.join(V, "seeded", d, "meta.json")
    if not os.path.exists(mp):
        continue
    m = json.load(open(mp))
    rows.append("| `%s` | %s | %s | %s | %s |" % (d, m["breaks_property"], m["needs_to_manifest"].replace("|", "\\|"), m["detected_by"].replace("|", "\\|"),
                                               (m.get("missed_before_strengthening") or "-").replace("|", "\\|")))
sec = """## 12. Seeded changes: which checks catch which

Every change below was written by an independent sub-agent that was given only the text of one property and its own scratch
worktree (nothing from /verif). Each was confirmed by `tools/eval_seeded.sh` in a scratch worktree - it compiles, the repository's
suite passes with it, its demonstration test passes without it and fails with it - and then the quick tier of the named checks was
run against that worktree (`VERIF_REPO=<worktree> bin/check <id>`; /repo itself is never touched). `patch.diff`, the demonstration
and `meta.json` are kept under `seeded/<name>/`. %d changes, all detected by the quick tier; the last column says which ones were
MISSED when first evaluated and what was added to the specification / families because of it (a check was never loosened).
Seven rounds were run (names without a round tag are round 1). Kept changes / of which first missed, per round: 19 / 7, 19 / 11, 7 / 6, 15 / 2,
15 / 3 (plus one caught by the check of its own property but missed by a second check it also breaks), 9 / 4, 10 / 5 (plus two caught only by a
handful of recorded random-trace events, for which an enumerated family was added). From round 6 on the agents were steered away from the code
regions of earlier rounds, which is why the miss rate rose again: each miss named an input shape no family contained (Set with a value already
stored under a duplicated name; a lazily cloned base for references repeating the base's scheme; an added special scheme without default port;
upper-case hex digits in an IPv6 literal under C18; eight IPv6 pieces followed by '::'; a zero piece after the compressed run; 'localhost.' in a
file URL; a lone '.' segment under slash collapsing; a package-level table written while a parser is constructed) and the family, or in the last
case the driver's fingerprinting, was extended. The specification itself predicted the right behaviour in every one of these cases - what was
missing was always an input, never a rule. Round 4's two misses (a profile's
`ParseRef` against an opaque-path base, and an accessor that depends on WHICH IPv6 address the host is) led to the `CanonRunB` operator and the
address-kind families; round 5's three (a run of escaped invalid bytes in a query collapsed to one U+FFFD; an IPv4 tail part of 256..2559 inside
an IPv6 literal; `IsIPv4` under lax host parsing) to the `formparse_bytes`, `v6tail_*` and `derived_lax` families. Changes that repeated an
archived one (same edit or same manifestation: C03, C11, C13, C17, C20 in round 4, C09, C18 in round 5) were evaluated - all detected - and
not archived again. One round-5 change written for C07 (a lone `0` part of an IPv4 address flagged as a non-decimal validation error) changes
nothing under the default parser and keeps every relation of C15 intact (reporting records the spurious entry, fail mode rejects accordingly):
it breaks no listed property - its author said as much - and was not archived; an exact comparison of the recorded validation errors with
the specification's inventory would see it, and is deliberately not a verdict because no property demands it. The whole archive was
re-run after round 4 (60 of 60 detected by the quick tier). After a fix commit rewrites the patched region a
patch is rebased onto the repaired tree (noted in its `meta.json`); `tools/eval_all_seeded.sh` re-runs the whole archive.

| seeded change | breaks | needs, in order to manifest | detected by | missed before strengthening |
|---|---|---|---|---|
%s
""" % (len(rows), "\n".join(rows))
p = os.path.join(V, "DESIGN.md")
s = open(p).read()
i = s.find("## 12. Seeded changes")
if i >= 0:
    s = s[:i].rstrip() + "\n\n" + sec
else:
    s = s.rstrip() + "\n\n" + sec
open(p, "w").write(s)
print("section 12:", len(rows), "rows")
