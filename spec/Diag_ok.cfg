CONSTANTS
 MaxLen = 5
 FatalAlwaysStops = TRUE
INIT Init
NEXT Next
INVARIANT Inv
CHECK_DEADLOCK FALSE
