---- MODULE Trace_Api ----
(* T-mode for the object machine: validates traces RECORDED FROM THE REAL CODE (vh record) against UrlApi.tla.
   One event per public call: op, arguments, and the observed state of EVERY live handle after the call (public getters g,
   internal record r through the verif-tag snapshot hook).  For each event
     - the specification's effect function (UrlApi!ParseInto / SetterOn / SPOn / CloneOn) is applied to the state adopted from
       the previous event and the result is compared with the logged state of every handle (so a write to a non-actor is seen);
     - the predicates on observed values only are evaluated: C04 (WellFormedG, CompositionG with the record's null flags),
       C19 (DerivedG), C12 (query = serialization of the stored list after a list mutation; list = ParseQ(query) after SetSearch),
       C13 (non-actors unchanged);
     - the state is then ADOPTED from the log (resynchronisation), so one mismatch does not mask the rest of the trace.
   The only unlogged input of a step is the IDNA answer for a non-trivial domain; it is bound from the log:
   Some(logged hostname) when the call left a host, None when the parse failed. *)
EXTENDS UrlApi, Options, Json
CONSTANT TraceFile
Trace == ndJsonDeserialize(TraceFile)
VARIABLES l, bad,
          tainted   \* hostnames produced in this history from an input containing U+2260 / U+226E / U+226F (finding F21)

RecOf(r) == [scheme |-> r.scheme, user |-> r.user, pass |-> r.pass, host |-> r.host, port |-> r.port, opaque |-> r.opaque,
             path |-> r.path, opath |-> r.opath, query |-> r.query, frag |-> r.frag]
NormT(t) == [i \in 1..Len(t) |-> IF IsRaw(t[i]) THEN 65533 ELSE t[i]]
NormL(ps) == [i \in 1..Len(ps) |-> <<NormT(ps[i][1]), NormT(ps[i][2])>>]
(* abstract object of a logged handle: its record; its list is the stored one when allocated, else the virtual list of the query *)
ObjOfLog(o) == IF ~o.live THEN Dead
               ELSE [live |-> TRUE, u |-> RecOf(o.r), params |-> IF o.r.hassp THEN NormL(o.r.params) ELSE ListOf(RecOf(o.r))]
StateOfLog(e) == [h \in Handles |-> ObjOfLog(e.objs[h])]

IdnaOf(e) == IF e.fail \/ ~e.objs[e.h].live THEN None ELSE Some(e.objs[e.h].g.hostname)
Expected(os, e) ==      \* the specification's state after the call; [os, fail]
  CASE e.op = "parse" -> LET b == IF e.bs = <<>> THEN None ELSE Some(ParseO(e.bs[1], None, IF e.bidna = <<>> THEN None ELSE Some(e.bidna[1]), POpts))
                             r == ParseInto(os, e.h, e.a, IF b = None THEN None ELSE Some(Get(b).u), IdnaOf(e))
                             r2 == IF r.fail /\ ~e.fail THEN ParseInto(os, e.h, e.a, IF b = None THEN None ELSE Some(Get(b).u), Some(LOCALHOST)) ELSE r
                         IN IF b # None /\ Get(b).res # "ok" THEN [os |-> os, fail |-> TRUE] ELSE [os |-> r2.os, fail |-> r2.fail]
    [] e.op = "resolve" -> LET r == ParseInto(os, e.h, e.a, Some(os[e.hb].u), IdnaOf(e))
                               r2 == IF r.fail /\ ~e.fail THEN ParseInto(os, e.h, e.a, Some(os[e.hb].u), Some(LOCALHOST)) ELSE r
                           IN [os |-> r2.os, fail |-> r2.fail]
    [] e.op = "set" -> LET o1 == SetterOn(os, e.h, e.n, e.a, IdnaOf(e))
                           o2 == IF e.n \in {"host", "hostname"} /\ PGetters(o1[e.h].u) # e.objs[e.h].g THEN SetterOn(os, e.h, e.n, e.a, None) ELSE o1
                           o3 == IF e.n \in {"host", "hostname"} /\ PGetters(o2[e.h].u) # e.objs[e.h].g THEN SetterOn(os, e.h, e.n, e.a, Some(LOCALHOST)) ELSE o2
                       IN [os |-> o3, fail |-> FALSE]
    [] e.op = "sp" -> [os |-> SPOn(os, e.h, e.n, e.a, e.b), fail |-> FALSE]
    [] e.op = "clone" -> [os |-> CloneOn(os, e.hb, e.h), fail |-> FALSE]
    [] e.op = "setsp" -> [os |-> SetSPOn(os, e.h, e.hb, e.n, e.a, e.b), fail |-> FALSE]
    [] e.op = "spdet" -> [os |-> os, fail |-> FALSE]      \* a detached copy is mutated and dropped

Failed(cs) == LET failed == {i \in 1..Len(cs) : ~cs[i][2]} IN
              IF failed = {} THEN <<>> ELSE [i \in 1..Cardinality(failed) |-> cs[CHOOSE k \in failed : Cardinality({j \in failed : j < k}) = i - 1][1]]
Crash(e) == e.err \in {"panic", "nilnil", "hang"}
HasMiscSymbol(t) == \E i \in 1..Len(t) : t[i] \in {8800, 8814, 8815}
F21(e) == HasMiscSymbol(e.a) \/ (e.bs # <<>> /\ HasMiscSymbol(e.bs[1])) \/ (e.objs[e.h].live /\ e.objs[e.h].g.hostname \in tainted)
Check(os, e) ==
  IF e.op = "reset" THEN <<>>
  ELSE IF Crash(e) THEN <<"crash">>
  ELSE LET x == Expected(os, e)
           live == {h \in Handles : e.objs[h].live} IN
  Failed(<<
    <<"C01/C05/C06: failure flag differs from the specification", x.fail = e.fail>>,
    <<"liveness of handles differs from the specification", \A h \in Handles : x.os[h].live = e.objs[h].live>>,
    <<"C01/C05: state of the handle acted on differs from the specification (record)",
        e.fail \/ ~e.objs[e.h].live \/ x.os[e.h].u = RecOf(e.objs[e.h].r)>>,
    <<"C01/C05/C19: getters of the handle acted on differ from the specification",
        e.fail \/ ~e.objs[e.h].live \/ PGetters(x.os[e.h].u) = e.objs[e.h].g>>,
    <<"C11/C12: stored parameter list of the handle acted on differs from the specification",
        e.fail \/ ~e.objs[e.h].live \/ ~e.objs[e.h].r.hassp \/ x.os[e.h].params = NormL(e.objs[e.h].r.params)>>,
    <<"C13: a handle other than the one acted on changed", \A h \in live \ {e.h} : os[h].live => ObjOfLog(e.objs[h]) = os[h]>>,
    <<"C13: a handle's SearchParams object writes through to another URL", \A h \in live : ~e.objs[h].r.hassp \/ e.objs[h].r.ownsp>>,
    <<"C04: observed getters are not well-formed", POpts # DefaultOpts \/ \A h \in live : WellFormedG(e.objs[h].g) \/ e.op = "sp" \/ ~WellFormedG(Getters(RecOf(e.objs[h].r)))>>,
    <<"C04: Href is not the composition of the getters",
        \A h \in live : LET r == e.objs[h].r IN CompositionG(e.objs[h].g, r.host = <<>>, r.query = <<>>, r.frag = <<>>) /\ CompositionPublicG(e.objs[h].g)>>,
    <<"C19: derived accessors disagree with the primary components", POpts # DefaultOpts \/ \A h \in live : DerivedG(e.objs[h].g)>>,     \* (the value predicates assume the default special-scheme table)
    <<"C12: after a list mutation the query is not the serialization of the list",
        e.op \notin {"sp", "setsp"} \/ e.objs[e.h].g.query = SerList(NormL(e.objs[e.h].r.params)) \/ (e.objs[e.h].g.query = <<>> /\ e.objs[e.h].r.params = <<>>)>>,
    <<"C11/C13: a detached copy of the list (SearchParams.Clone) does not hold the mutated list",
        e.op # "spdet" \/ [i \in 1..Len(e.ret) |-> NormT(e.ret[i])] = FlatList(ListOp(os[e.h].params, e.n, e.a, e.b))>>,
    <<"C12: after SetSearch the list is not the urlencoded parse of the query",
        ~(e.op = "set" /\ e.n = "search") \/ ~e.objs[e.h].r.hassp \/ NormL(e.objs[e.h].r.params) = ParseQO(POpts, e.objs[e.h].g.query)>>,
    <<IF F21(e)
      THEN "C03: re-parsing the serialization differs from what the specification predicts [F21: the host was produced from an input containing one of the symbols U+2260 U+226E U+226F]"
      ELSE "C03: re-parsing the serialization differs from what the specification predicts",
        e.fail \/ ~e.objs[e.h].live \/ e.rt = <<>> \/
          LET u == RecOf(e.objs[e.h].r)
              rp == ReparseI(u, IF u.host = None THEN None ELSE Some(Get(u.host)))
              o == e.rt[1]
          IN rp.fail = o.fail /\ (~rp.fail => rp.g = o.g)>>
  >>)

TInit == l = 1 /\ bad = <<>> /\ tainted = {} /\ objs = [h \in Handles |-> Dead] /\ actor = 0 /\ hist = <<>>
TNext == /\ l <= Len(Trace)
         /\ l' = l + 1
         /\ LET e == Trace[l]  v == Check(objs, e) IN
            /\ bad' = IF v = <<>> THEN bad ELSE Append(bad, [i |-> l, v |-> v])
            /\ objs' = IF e.op = "reset" THEN [h \in Handles |-> Dead] ELSE StateOfLog(e)     \* adopt the log: resynchronise
            /\ tainted' = IF e.op = "reset" THEN {}
                           ELSE IF (HasMiscSymbol(e.a) \/ (e.bs # <<>> /\ HasMiscSymbol(e.bs[1]))) /\ e.objs[e.h].live THEN tainted \cup {e.objs[e.h].g.hostname}
                           ELSE tainted
            /\ actor' = IF e.op = "reset" THEN 0 ELSE e.h
            /\ hist' = <<>>
Done == (l = Len(Trace) + 1) => PrintT(<<"VERDICTS", Len(Trace), ToJson(bad)>>)
AllConsumed == TLCGet("stats").diameter - 1 = Len(Trace)
====
