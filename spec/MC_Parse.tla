---- MODULE MC_Parse ----
(* E-mode: exhaustive enumeration of parser inputs.
   Initial states: every string  prefix \o w \o suffix  with <<prefix, suffix>> a frame and w over Alphabet,
   MinLen <= |w| <= MaxLen, against every base.
   One TLC step per iteration of the parser loop.  The constants are supplied by a generated module
   (bin/check writes <family>.tla/.cfg from its family table; cfg files cannot hold tuples). *)
EXTENDS Options, Json
CONSTANTS Alphabet,   \* set of code points
          MaxLen,     \* max length of the enumerated middle part
          MinLen,
          Frames,     \* set of <<prefix, suffix>> pairs of code point strings
          BaseStrs,   \* set of base strings (all must parse)
          NoBase      \* BOOLEAN: also run without a base

Strings == UNION {[1..k -> Alphabet] : k \in MinLen..MaxLen}
BaseRec == [b \in BaseStrs |-> Parse(b, None, None)]
BaseOpts == (IF NoBase THEN {None} ELSE {}) \cup {Some(b) : b \in BaseStrs}

VARIABLES ps,    \* parser state (BasicParser)
          raw,   \* the input as given (before trimming / tab-newline removal)
          bstr   \* None or Some(base string)
vars == <<ps, raw, bstr>>

Init == \E fr \in Frames, w \in Strings, b \in BaseOpts :
          /\ raw = fr[1] \o w \o fr[2]
          /\ bstr = b
          /\ ps = PInit(Preprocess(Ingest(raw), FALSE), (IF b = None THEN None ELSE Some(BaseRec[Get(b)].u)), EmptyUrl, "none", None)
Next == ps.res = "run" /\ ps' = Step(ps) /\ UNCHANGED <<raw, bstr>>
Spec == Init /\ [][Next]_vars /\ WF_vars(Next)

Done == ps.res # "run"
Ok == ps.res = "ok"

(* ---- design checks on the specification ---- *)
BasesParse == \A b \in BaseStrs : BaseRec[b].res = "ok"
PtrOk == ps.ptr >= 0 /\ ps.ptr <= Len(ps.input) + 1                        \* C02: the cursor never leaves the input
Terminates == <>Done                                                       \* C02 (liveness config)
WorkBound == ps.work <= 4 * Len(ps.input) + 8                              \* C20: the algorithm is linear
RoundTripInv == Ok => RoundTrip(ps.u)                                      \* C03
WellFormedInv == Ok => WellFormed(ps.u) /\ ComponentsOk(ps.u)              \* C04 (record)
GettersInv == Ok => LET g == Getters(ps.u) IN                              \* C04 / C19 (getter-value forms)
                    /\ WellFormedG(g) /\ DerivedG(g)
                    /\ CompositionG(g, ps.u.host = None, ps.u.query = None, ps.u.frag = None) /\ CompositionPublicG(g)

(* ---- C06 laws, evaluated at terminal ok states (u parsed from (raw, base)) ---- *)
Res(b, ref) == Parse(ref, b, None)
AllBaseRecs == {Some(BaseRec[b].u) : b \in BaseStrs}
LawSelf == Ok => \A b \in AllBaseRecs \cup {None} : LET r == Res(b, Href(ps.u, FALSE)) IN r.res = "ok" /\ r.u = ps.u
LawEmpty == Ok => LET r == Res(Some(ps.u), <<>>) IN
                  IF ps.u.opaque THEN r.res = "fail" ELSE r.res = "ok" /\ r.u = [ps.u EXCEPT !.frag = None]
LawHash == Ok => LET r == Res(Some(ps.u), <<35, 102>>) IN r.res = "ok" /\ r.u = [ps.u EXCEPT !.frag = Some(<<102>>)]
LawQuery == Ok => LET r == Res(Some(ps.u), <<63, 113>>) IN
                  IF ps.u.opaque THEN r.res = "fail" ELSE r.res = "ok" /\ r.u = [ps.u EXCEPT !.query = Some(<<113>>), !.frag = None]
LawScheme == Ok => \A ref \in {<<97>>, <<47, 97>>, <<47, 47, 97>>, <<46, 46>>, <<92, 97>>, <<58>>, <<49, 58>>} :
                LET r == Res(Some(ps.u), ref) IN r.res = "ok" => r.u.scheme = ps.u.scheme
LawOpaqueBase == Ok /\ ps.u.opaque => \A ref \in {<<97>>, <<47>>, <<63>>, <<>>, <<46>>, <<47, 47, 104>>} : Res(Some(ps.u), ref).res = "fail"

(* ---- C16 design check: on the specification every modelled trigger is sufficient - an input (and base) that does
        not contain the trigger parses identically with and without the option ---- *)
TriggersSufficient == Done => \A n \in {"single_pct", "collapse", "skip_drive", "special_gopher"} :
                                 TriggerSufficient(n, raw, bstr, IF bstr = None THEN None ELSE Some(BaseRec[Get(bstr)].u))

(* ---- emission: one expected behaviour per terminal state ---- *)
Emit == Done => PrintT(ToJson([t |-> "p", in |-> raw, bs |-> bstr, fail |-> ps.res = "fail",
                               g |-> IF Ok THEN Getters(ps.u) ELSE Getters(EmptyUrl), asked |-> ps.asked # None]))
====
