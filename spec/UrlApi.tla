---- MODULE UrlApi ----
(* The object machine: handles -> (URL record, parameter list).  One action per public call of the Go API:
   ParseNew, Resolve, the nine setters, the SearchParams mutators (writing through), Clone, SetSearchParams (four ways of
   building the argument), and the mutation of a detached copy of a list (SearchParams.Clone).
   It carries the history properties: C03 (round trip in every reachable state), C04 (well-formedness),
   C05 (setters), C12 (URL <-> list synchronisation), C13 (independence), C19 (derived accessors).

   Two places where the library deliberately / knowingly differs from the standard's URLSearchParams are
   *named deviations*, switched by the constant Dev (both FALSE = the standard):
     ImplQueryEscape         the list is serialized with the query percent-encode set and ' ' -> '+'
                             (the standard uses the application/x-www-form-urlencoded byte serializer)
     EmptyListKeepsQueryMark an emptied list leaves an empty, non-null query ("?") where the standard nulls it *)
EXTENDS UrlInvariants
CONSTANTS NH,     \* number of handles
          Dev,    \* [ImplQueryEscape : BOOLEAN, EmptyListKeepsQueryMark : BOOLEAN, SkipEquals : BOOLEAN]
          WithRT, \* BOOLEAN: expected states carry the expected result of re-parsing their serialization (C03)
          WithLaw,\* BOOLEAN: expected states carry the codec law "parse(serialize(list)) = list" for the library's serializer (C11)
          POpts   \* the parser option record every handle's parser was built with (DefaultOpts = the standard)

Handles == 1..NH
DevStd == [ImplQueryEscape |-> FALSE, EmptyListKeepsQueryMark |-> FALSE, SkipEquals |-> FALSE]
DevImpl == [ImplQueryEscape |-> TRUE, EmptyListKeepsQueryMark |-> TRUE, SkipEquals |-> FALSE]
DevSkipEq == [ImplQueryEscape |-> TRUE, EmptyListKeepsQueryMark |-> TRUE, SkipEquals |-> TRUE]   \* WithSkipEqualsForEmptySearchParamsValue

VARIABLES objs,    \* [Handles -> [live, u, params]]
          actor,   \* the handle the last action wrote (0 initially); history variable
          hist     \* the steps so far, each with the expected state of every handle; history variable
avars == <<objs, actor, hist>>

Dead == [live |-> FALSE, u |-> EmptyUrl, params |-> <<>>]
ListOf(u) == IF u.query = None THEN <<>> ELSE ParseQO(POpts, Get(u.query))
Obj(u) == [live |-> TRUE, u |-> u, params |-> ListOf(u)]
Live == {h \in Handles : objs[h].live}

(* ---- list serializer actually used for write-through ---- *)
ImplEsc(o, s) == Flat([i \in 1..Len(s) |-> IF s[i] = 32 THEN <<43>> ELSE Enc1(o, o.sQuery, s[i])])
RECURSIVE SerQImplO(_, _, _)
SerQImplO(o, skipEq, l) ==
  IF l = <<>> THEN <<>>
  ELSE ImplEsc(o, l[1][1]) \o (IF skipEq /\ l[1][2] = <<>> THEN <<>> ELSE <<61>>) \o ImplEsc(o, l[1][2])
       \o (IF Len(l) > 1 THEN <<38>> \o SerQImplO(o, skipEq, Tail(l)) ELSE <<>>)
SerList(l) == IF Dev.ImplQueryEscape THEN SerQImplO(POpts, Dev.SkipEquals, l) ELSE SerQ(l)
UpdateSteps(l, q) == LET s == SerList(l) IN
                     IF s # <<>> THEN Some(s)
                     ELSE IF Dev.EmptyListKeepsQueryMark /\ q # None THEN Some(<<>>) ELSE None

(* ---- expected observable state of a handle (what the harness compares) ---- *)
PGetters(u) == GettersO(POpts, u)
Reparse(u) == LET r == ParseO(Href(u, FALSE), None, None, POpts) IN
              [same |-> r.res = "ok" /\ r.u = u, fail |-> r.res # "ok", g |-> PGetters(IF r.res = "ok" THEN r.u ELSE EmptyUrl)]
(* the codec law of C11 for the serializer the library uses, and the spec-evaluated characterisation of finding
   F03 (a name or value containing one of the delimiter characters % & + = that the serializer leaves unescaped) *)
HasDelim(s) == \E i \in 1..Len(s) : s[i] \in {37, 38, 43, 61}
HasDelims(l) == \E i \in 1..Len(l) : HasDelim(l[i][1]) \/ HasDelim(l[i][2])
LawOf(l) == [faithful |-> ParseQ(SerQImplO(POpts, Dev.SkipEquals, l)) = l, delims |-> HasDelims(l)]
(* the same with the IDNA answer supplied (trace validation: the oracle is assumed idempotent on its own output) *)
ReparseI(u, idna) == LET r == ParseO(Href(u, FALSE), None, idna, POpts) IN
              [same |-> r.res = "ok" /\ r.u = u, fail |-> r.res # "ok", g |-> PGetters(IF r.res = "ok" THEN r.u ELSE EmptyUrl)]
ObsOf(o) == IF ~o.live THEN [live |-> FALSE]
            ELSE [live |-> TRUE, g |-> PGetters(o.u), p |-> o.params]
                 @@ (IF WithRT THEN [rt |-> Reparse(o.u)] ELSE <<>>)
                 @@ (IF WithLaw THEN [law |-> LawOf(o.params)] ELSE <<>>)
ObsAll(os) == [h \in Handles |-> ObsOf(os[h])]
(* a logged step carries the call only; the expected state of every handle after the LAST step is added on emission
   (every prefix of a history is emitted on its own, so every step is compared) *)
StepRec(op, h, hb, n, a, b, fail, os) == [op |-> op, h |-> h, hb |-> hb, n |-> n, a |-> a, b |-> b, fail |-> fail]
WithObs(hs, os) == [i \in 1..Len(hs) |-> IF i = Len(hs) THEN hs[i] @@ [objs |-> ObsAll(os)] ELSE hs[i]]
Log(op, h, hb, n, a, b, fail, os) == hist' = Append(hist, StepRec(op, h, hb, n, a, b, fail, os))

(* ---- the effect of each public call as a function on the handle table (shared by the actions below and by the
        trace specification Trace_Api.tla, which supplies the IDNA answer inferred from the log) ---- *)
ParseInto(os, h, in, base, idna) ==
  LET r == ParseO(in, base, idna, POpts) IN
  [os |-> IF r.res = "ok" THEN [os EXCEPT ![h] = Obj(r.u)] ELSE os, fail |-> r.res # "ok", asked |-> r.asked]
SetterOn(os, h, op, v, idna) ==
  LET u2 == ApplyO(POpts, os[h].u, op, v, idna) IN
  [os EXCEPT ![h].u = u2, ![h].params = IF op = "search" THEN ListOf(u2) ELSE @]
SPOn(os, h, op, n, v) ==
  LET l2 == ListOp(os[h].params, op, n, v) IN
  [os EXCEPT ![h].params = l2, ![h].u.query = UpdateSteps(l2, @)]
CloneOn(os, h, hn) == [os EXCEPT ![hn] = os[h]]
(* SetSearchParams(list): the URL's parameter list becomes a COPY of the given list and the query is rewritten from it; the
   given list object - another URL's live list, a detached copy (SearchParams.Clone) or a fresh value - is neither adopted
   nor changed, and no other URL changes.  The argument is built in one of four ways (how):
     "fresh0" : the empty SearchParams value            "fresh" : the empty value with (n, v) appended
     "copy"   : objs[hs].SearchParams().Clone() with (n, v) appended to the copy before the call
     "live"   : objs[hs].SearchParams() itself (hs may be h) *)
XferList(os, hs, how, n, v) == CASE how = "fresh0" -> <<>>
                                 [] how = "fresh" -> ListOp(<<>>, "append", n, v)
                                 [] how = "copy" -> ListOp(os[hs].params, "append", n, v)
                                 [] how = "live" -> os[hs].params
SetSPOn(os, h, hs, how, n, v) == LET l2 == XferList(os, hs, how, n, v) IN
                                 [os EXCEPT ![h].params = l2, ![h].u.query = UpdateSteps(l2, @)]
(* a detached copy of the list (SearchParams.Clone) is mutated and dropped: it holds the mutated list, no URL changes *)
FlatList(l) == Flat([i \in 1..Len(l) |-> <<l[i][1], l[i][2]>>])

(* ---- actions ---- *)
Init == objs = [h \in Handles |-> Dead] /\ actor = 0 /\ hist = <<>>

ParseNew(h, in) ==
  /\ ~objs[h].live
  /\ LET r == ParseInto(objs, h, in, None, None) IN
     /\ r.asked = None                  \* IDNA-free inputs only in this machine
     /\ objs' = r.os /\ actor' = h /\ Log("parse", h, 0, "", in, <<>>, r.fail, r.os)

Resolve(hb, hn, ref) ==
  /\ objs[hb].live /\ ~objs[hn].live
  /\ LET r == ParseInto(objs, hn, ref, Some(objs[hb].u), None) IN
     /\ r.asked = None
     /\ objs' = r.os /\ actor' = hn /\ Log("resolve", hn, hb, "", ref, <<>>, r.fail, r.os)

Setter(h, op, v) ==
  /\ objs[h].live
  /\ LET os == SetterOn(objs, h, op, v, None)
     IN objs' = os /\ actor' = h /\ Log("set", h, 0, op, v, <<>>, FALSE, os)

SPMutate(h, op, n, v) ==
  /\ objs[h].live
  /\ LET os == SPOn(objs, h, op, n, v)
     IN objs' = os /\ actor' = h /\ Log("sp", h, 0, op, n, v, FALSE, os)

Clone(h, hn) ==
  /\ objs[h].live /\ ~objs[hn].live
  /\ LET os == CloneOn(objs, h, hn) IN
     objs' = os /\ actor' = hn /\ Log("clone", hn, h, "", <<>>, <<>>, FALSE, os)

SetSP(h, hs, how, n, v) ==
  /\ objs[h].live /\ (how \in {"copy", "live"} => hs \in Handles /\ objs[hs].live)
  /\ LET os == SetSPOn(objs, h, hs, how, n, v)
     IN objs' = os /\ actor' = h /\ Log("setsp", h, hs, how, n, v, FALSE, os)

SPDetached(h, op, n, v) ==
  /\ objs[h].live
  /\ UNCHANGED objs /\ actor' = h
  /\ hist' = Append(hist, StepRec("spdet", h, 0, op, n, v, FALSE, objs) @@ [ret |-> FlatList(ListOp(objs[h].params, op, n, v))])

(* readers: no state change; the expected result is logged *)
OptTexts(o) == IF o = None THEN <<>> ELSE <<Get(o)>>
Reader(h, op, n) ==
  /\ objs[h].live
  /\ UNCHANGED <<objs, actor>>
  /\ hist' = Append(hist, [StepRec("read", h, 0, op, n, <<>>, FALSE, objs) EXCEPT
                           !.op = "read"] @@ [ret |-> CASE op = "get" -> OptTexts(LGet(objs[h].params, Ingest(n)))
                                                        [] op = "getall" -> LGetAll(objs[h].params, Ingest(n))
                                                        [] op = "has" -> IF LHas(objs[h].params, Ingest(n)) THEN << <<>> >> ELSE <<>>])

(* ---- invariants (state) ---- *)
AllWellFormed == \A h \in Live : WellFormedO(POpts, objs[h].u) /\ ComponentsOkO(POpts, objs[h].u)
(* the getter-value predicates assume the default special-scheme table; they are used in default-option families only *)
AllGettersOk == \A h \in Live : LET g == PGetters(objs[h].u)  u == objs[h].u IN
                  WellFormedG(g) /\ DerivedG(g) /\ CompositionG(g, u.host = None, u.query = None, u.frag = None) /\ CompositionPublicG(g)
(* C12: the list is the urlencoded parse of the query, in every reachable state *)
QueryText(u) == IF u.query = None THEN <<>> ELSE Get(u.query)
Sync == \A h \in Live : objs[h].params = ParseQ(QueryText(objs[h].u))
(* C11: serializing any reachable list and parsing it back is the identity (standard serializer) *)
ListRoundTrip == \A h \in Live : ParseQ(SerQ(objs[h].params)) = objs[h].params
(* the same law for the serializer the library uses; where it fails is finding F-C11-serializer *)
ImplSerializerFaithful(l) == ParseQ(SerQImplO(DefaultOpts, FALSE, l)) = l
(* C03: serialize-then-parse, or one of the standard's own exceptions *)
StdRoundTripFails(u) == ~RoundTripO(POpts, u)
RoundTripAll == \A h \in Live : RoundTripO(POpts, objs[h].u)

(* ---- action properties ---- *)
(* C13: an action changes at most the handle it acts on / creates *)
Independence == [][\A h \in Handles : h # actor' => objs'[h] = objs[h]]_avars
(* C12: after a list mutation the query is the serialization of the list *)
WriteThrough == [][\A h \in Handles : (hist' # hist /\ Last(hist').op \in {"sp", "setsp"} /\ Last(hist').h = h)
                     => QueryText(objs'[h].u) = SerList(objs'[h].params)]_avars
====
