---- MODULE CodePoints ----
(* Code points, classes, percent-encode sets, UTF-8, percent codec.
   All text is Seq(Nat) of code points (never TLA+ strings).
   A raw byte that is not valid UTF-8 in a Go string is carried as the pseudo code point RawBase + b and
   is turned into U+FFFD on ingestion (Ingest) - one U+FFFD per byte, as Go's []rune conversion does. *)
EXTENDS Integers, Sequences, FiniteSets

EOF == -1
None == <<>>
Some(v) == <<v>>
IsSome(o) == o # <<>>
Get(o) == o[1]

RawBase == 1114112      \* 0x110000
IsRaw(c) == c >= RawBase
Ingest(s) == [i \in 1..Len(s) |-> IF IsRaw(s[i]) THEN 65533 ELSE s[i]]

IsDigit(c) == c >= 48 /\ c <= 57
IsUpper(c) == c >= 65 /\ c <= 90
IsLower(c) == c >= 97 /\ c <= 122
IsAlpha(c) == IsUpper(c) \/ IsLower(c)
IsAlnum(c) == IsAlpha(c) \/ IsDigit(c)
IsHex(c) == IsDigit(c) \/ (c >= 65 /\ c <= 70) \/ (c >= 97 /\ c <= 102)
Lower(c) == IF IsUpper(c) THEN c + 32 ELSE c
Upper(c) == IF IsLower(c) THEN c - 32 ELSE c
HexVal(c) == IF IsDigit(c) THEN c - 48 ELSE IF c >= 97 THEN c - 87 ELSE c - 55
IsC0(c) == c >= 0 /\ c <= 31
IsC0OrSpace(c) == c >= 0 /\ c <= 32
IsTabNl(c) == c \in {9, 10, 13}
ForbiddenHost == {0, 9, 10, 13, 32, 35, 47, 58, 60, 62, 63, 64, 91, 92, 93, 94, 124}
IsForbiddenHost(c) == c \in ForbiddenHost
IsForbiddenDomain(c) == IsForbiddenHost(c) \/ IsC0(c) \/ c = 37 \/ c = 127

(* URL code points (used only by the validation-error inventory): ASCII alphanumeric, the listed punctuation,
   and U+00A0..U+10FFFD minus surrogates and noncharacters *)
IsNonChar(c) == (c >= 64976 /\ c <= 65007) \/ (c % 65536 \in {65534, 65535})
IsUrlCp(c) == IsAlnum(c) \/ c \in {33, 36, 38, 39, 40, 41, 42, 43, 44, 45, 46, 47, 58, 59, 61, 63, 64, 95, 126}
              \/ (c >= 160 /\ c <= 1114109 /\ ~(c >= 55296 /\ c <= 57343) /\ ~IsNonChar(c))

LowerSeq(s) == [i \in 1..Len(s) |-> Lower(s[i])]
UpperSeq(s) == [i \in 1..Len(s) |-> Upper(s[i])]
StartsWith(s, p) == Len(s) >= Len(p) /\ SubSeq(s, 1, Len(p)) = p
EndsWith(s, p) == Len(s) >= Len(p) /\ SubSeq(s, Len(s) - Len(p) + 1, Len(s)) = p
Drop(s, n) == SubSeq(s, n + 1, Len(s))
Last(s) == s[Len(s)]
Front(s) == SubSeq(s, 1, Len(s) - 1)
Contains(s, c) == \E i \in 1..Len(s) : s[i] = c
IndexOf(s, c) == IF Contains(s, c) THEN CHOOSE i \in 1..Len(s) : s[i] = c /\ \A j \in 1..(i-1) : s[j] # c ELSE 0

RECURSIVE Flat(_)
Flat(ss) == IF ss = <<>> THEN <<>> ELSE Head(ss) \o Flat(Tail(ss))

RECURSIVE Repeat(_, _)
Repeat(s, n) == IF n <= 0 THEN <<>> ELSE s \o Repeat(s, n - 1)

(* split on a separator code point, strictly: "a..b" -> <<"a","","b">>; "" -> <<"">> *)
RECURSIVE SplitAcc(_, _, _, _)
SplitAcc(s, sep, i, cur) ==
  IF i > Len(s) THEN <<cur>>
  ELSE IF s[i] = sep THEN <<cur>> \o SplitAcc(s, sep, i + 1, <<>>)
  ELSE SplitAcc(s, sep, i + 1, Append(cur, s[i]))
Split(s, sep) == SplitAcc(s, sep, 1, <<>>)

RECURSIVE JoinWith(_, _)
JoinWith(ss, sep) == IF ss = <<>> THEN <<>> ELSE IF Len(ss) = 1 THEN ss[1] ELSE ss[1] \o <<sep>> \o JoinWith(Tail(ss), sep)

(* ---- percent-encode sets: [below, bits] - exactly the shape of the code's PercentEncodeSet;
        every code point > 0x7E is always a member ---- *)
MkSet(below, bits) == [below |-> below, bits |-> bits]
SetC0 == MkSet(32, {})
SetC0Space == MkSet(33, {})
SetFragment == MkSet(33, {34, 60, 62, 96})
SetQuery == MkSet(33, {34, 35, 60, 62})
SetSpecialQuery == MkSet(33, {34, 35, 39, 60, 62})
SetPath == MkSet(33, {34, 35, 60, 62, 63, 96, 123, 125})
SetUserinfo == MkSet(33, SetPath.bits \cup {47, 58, 59, 61, 64, 91, 92, 93, 94, 124})
SetComponent == MkSet(33, SetUserinfo.bits \cup {36, 37, 38, 43, 44})
SetUrlencoded == MkSet(33, SetComponent.bits \cup {33, 39, 40, 41, 126})
SetHostPE == MkSet(33, {35})                        \* the code's HostPercentEncodeSet (not in the standard)
InSet(S, c) == c < S.below \/ c > 126 \/ c \in S.bits
SetAdd(S, cs) == MkSet(S.below, S.bits \cup cs)       \* derive (copy-on-derive is trivially true of values)
SetDel(S, cs) == MkSet(S.below, S.bits \ cs)
NamedSets == [c0 |-> SetC0, fragment |-> SetFragment, query |-> SetQuery, specialquery |-> SetSpecialQuery,
              path |-> SetPath, userinfo |-> SetUserinfo]

(* ---- UTF-8 ---- *)
Utf8(c) == IF c < 128 THEN <<c>>
           ELSE IF c < 2048 THEN <<192 + (c \div 64), 128 + (c % 64)>>
           ELSE IF c < 65536 THEN <<224 + (c \div 4096), 128 + ((c \div 64) % 64), 128 + (c % 64)>>
           ELSE <<240 + (c \div 262144), 128 + ((c \div 4096) % 64), 128 + ((c \div 64) % 64), 128 + (c % 64)>>
Utf8Str(s) == Flat([i \in 1..Len(s) |-> Utf8(s[i])])
HexDigit(n) == IF n < 10 THEN 48 + n ELSE 55 + n
PctByte(b) == <<37, HexDigit(b \div 16), HexDigit(b % 16)>>
PctCp(c) == LET bs == Utf8(c) IN Flat([i \in 1..Len(bs) |-> PctByte(bs[i])])
EncCp(S, c) == IF InSet(S, c) THEN PctCp(c) ELSE <<c>>
EncStr(S, s) == Flat([i \in 1..Len(s) |-> EncCp(S, s[i])])

IsPctTriple(s, i) == s[i] = 37 /\ i + 2 <= Len(s) /\ IsHex(s[i+1]) /\ IsHex(s[i+2])

(* percent-decode a code point string to bytes (non-ASCII code points contribute their UTF-8 bytes) *)
RECURSIVE PctDecodeAcc(_, _)
PctDecodeAcc(s, i) ==
  IF i > Len(s) THEN <<>>
  ELSE IF IsPctTriple(s, i)
       THEN <<16 * HexVal(s[i+1]) + HexVal(s[i+2])>> \o PctDecodeAcc(s, i + 3)
       ELSE Utf8(s[i]) \o PctDecodeAcc(s, i + 1)
PctDecode(s) == PctDecodeAcc(s, 1)

(* bytes of a Go string given as text: a raw pseudo code point is the single byte it stands for *)
BytesOfT(t) == Flat([i \in 1..Len(t) |-> IF IsRaw(t[i]) THEN <<t[i] - RawBase>> ELSE Utf8(t[i])])

(* one UTF-8 sequence starting at b[i]: <<code point, length>> or <<-1, 1>> if b[i] does not start a valid one *)
IsCont(b) == b >= 128 /\ b <= 191
Utf8At(b, i) ==
  LET b0 == b[i] IN
    IF b0 < 128 THEN <<b0, 1>>
    ELSE IF b0 >= 194 /\ b0 <= 223 /\ i + 1 <= Len(b) /\ IsCont(b[i+1])
      THEN <<(b0 - 192) * 64 + (b[i+1] - 128), 2>>
    ELSE IF b0 >= 224 /\ b0 <= 239 /\ i + 2 <= Len(b) /\ IsCont(b[i+1]) /\ IsCont(b[i+2])
            /\ (b0 # 224 \/ b[i+1] >= 160) /\ (b0 # 237 \/ b[i+1] <= 159)
      THEN <<(b0 - 224) * 4096 + (b[i+1] - 128) * 64 + (b[i+2] - 128), 3>>
    ELSE IF b0 >= 240 /\ b0 <= 244 /\ i + 3 <= Len(b) /\ IsCont(b[i+1]) /\ IsCont(b[i+2]) /\ IsCont(b[i+3])
            /\ (b0 # 240 \/ b[i+1] >= 144) /\ (b0 # 244 \/ b[i+1] <= 143)
      THEN <<(b0 - 240) * 262144 + (b[i+1] - 128) * 4096 + (b[i+2] - 128) * 64 + (b[i+3] - 128), 4>>
    ELSE <<-1, 1>>

(* strict UTF-8 decode: None if invalid, Some(cps) otherwise *)
RECURSIVE Utf8DecAcc(_, _, _)
Utf8DecAcc(b, i, acc) ==
  IF i > Len(b) THEN Some(acc)
  ELSE LET r == Utf8At(b, i) IN IF r[1] = -1 THEN None ELSE Utf8DecAcc(b, i + r[2], Append(acc, r[1]))
Utf8Decode(b) == Utf8DecAcc(b, 1, <<>>)

(* Go-style lossy UTF-8 decode: every byte that does not start a valid sequence -> U+FFFD *)
RECURSIVE LossyAcc(_, _, _)
LossyAcc(b, i, acc) ==
  IF i > Len(b) THEN acc
  ELSE LET r == Utf8At(b, i) IN LossyAcc(b, i + r[2], Append(acc, IF r[1] = -1 THEN 65533 ELSE r[1]))
Lossy(b) == LossyAcc(b, 1, <<>>)

(* decimal / lower-hex rendering *)
RECURSIVE DecStr(_)
DecStr(n) == IF n < 10 THEN <<48 + n>> ELSE Append(DecStr(n \div 10), 48 + (n % 10))
RECURSIVE HexStr(_)
HexStr(n) == IF n < 16 THEN <<(IF n < 10 THEN 48 + n ELSE 87 + n)>> ELSE Append(HexStr(n \div 16), (IF n % 16 < 10 THEN 48 + (n % 16) ELSE 87 + (n % 16)))

====
