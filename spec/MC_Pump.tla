---- MODULE MC_Pump ----
(* C20: the work model and the pump families.
   The parser state carries `work` (loop iterations + buffer code points re-scanned); WorkBound (MC_Parse) says the
   ALGORITHM is linear.  Any super-linear cost is therefore an artefact of the implementation, and the inputs that can
   expose it are the cycles of the parser's control-state graph: a unit string u pumps after a prefix p when the
   control state (parser state, flags, buffer emptiness) after p.u and after p.u.u coincide.  This module enumerates
   (p, u) and emits every pump together with its control state; bin/check keeps one representative per
   (control state, unit), appends suffixes and hands the families to the measuring harness. *)
EXTENDS BasicParser, Json
CONSTANTS PAlphabet, PMax, UAlphabet, UMax, Schemes, BaseStrs

Strs(A, lo, hi) == UNION {[1..k -> A] : k \in lo..hi}
BaseRec == [b \in BaseStrs |-> Parse(b, None, None).u]
BaseOpts == {None} \cup {Some(b) : b \in BaseStrs}

RECURSIVE RunTo(_)
(* run until every code point is consumed, stopping BEFORE the end-of-input step *)
RunTo(s) == IF s.res # "run" \/ s.ptr > Len(s.input) THEN s ELSE RunTo(Step(s))
Ctl(s) == [st |-> s.st, at |-> s.at, br |-> s.br, pw |-> s.pw, bufEmpty |-> s.buf = <<>>, res |-> s.res]
After(in, b) == RunTo(PInit(Preprocess(in, FALSE), (IF b = None THEN None ELSE Some(BaseRec[Get(b)])), EmptyUrl, "none", None))

(* two-step fan-out (TLC evaluates initial states on one thread): first (scheme, unit, base), then the prefix *)
VARIABLES pu, ph
Init == pu = [p |-> <<>>, u |-> <<>>, b |-> None] /\ ph = 0
Next == \/ ph = 0 /\ ph' = 1 /\ \E sc \in Schemes, u \in Strs(UAlphabet, 1, UMax), b \in BaseOpts : pu' = [p |-> sc, u |-> u, b |-> b]
        \/ ph = 1 /\ ph' = 2 /\ \E p \in Strs(PAlphabet, 0, PMax) : pu' = [pu EXCEPT !.p = @ \o p]
Active == ph = 2

IsPump == Active /\ LET s1 == After(pu.p \o pu.u, pu.b)
              s2 == After(pu.p \o pu.u \o pu.u, pu.b)
          IN s1.res = "run" /\ s2.res = "run" /\ Ctl(s1) = Ctl(s2)
(* design: pumping never makes the work model super-linear: work(p.u.u) - work(p.u) is bounded by a constant times |u| *)
PumpWorkLinear == IsPump => LET s1 == After(pu.p \o pu.u, pu.b)  s2 == After(pu.p \o pu.u \o pu.u, pu.b)
                            IN s2.work - s1.work <= 4 * Len(pu.u)
Emit == IsPump => PrintT(ToJson([t |-> "pump", p |-> pu.p, u |-> pu.u, b |-> pu.b, ctl |-> Ctl(After(pu.p \o pu.u, pu.b))]))
====
