CONSTANTS
 G = {g1, g2}
 LazyInitOnClone = TRUE
 Calls = {"resolve", "getter", "parse"}
INIT Init
NEXT Next
INVARIANT NoRace
CHECK_DEADLOCK FALSE
