---- MODULE Diag ----
(* The diagnostics choke-point (url/errorhandler.go) as a tiny machine.
   A parser run is abstracted to the sequence of diagnostic events it would raise, in order, if never stopped:
   ve \in Seq([type, fatal]).  Outcome(ve, cfg) says what each configuration returns and records.
   C15's relations are theorems of this design PROVIDED a fatal event always stops the run
   (FatalAlwaysStops); with one call site that records a fatal-flagged event and carries on - the defect
   behind http://../ - TLC refutes them (Diag_bad.cfg). *)
EXTENDS Integers, Sequences, FiniteSets, TLC
CONSTANTS MaxLen, FatalAlwaysStops
DNone == <<>>
DSome(v) == <<v>>
Ev == [type : {"t1", "t2", "t3"}, fatal : BOOLEAN]
Runs == UNION {[1..k -> Ev] : k \in 0..MaxLen}
Cfg(report, fo) == [report |-> report, failOnVE |-> fo]
Default == Cfg(FALSE, FALSE)  Report == Cfg(TRUE, FALSE)  FailOn == Cfg(FALSE, TRUE)  Both == Cfg(TRUE, TRUE)
Min(S) == CHOOSE x \in S : \A y \in S : x <= y
Stops(ve, cfg) == {i \in 1..Len(ve) : (ve[i].fatal /\ (FatalAlwaysStops \/ i # 1)) \/ cfg.failOnVE}
Outcome(ve, cfg) ==
  LET k == IF Stops(ve, cfg) = {} THEN 0 ELSE Min(Stops(ve, cfg)) IN
  [err |-> IF k = 0 THEN DNone ELSE DSome(ve[k]),
   ok |-> k = 0,
   recorded |-> IF cfg.report THEN SubSeq(ve, 1, IF k = 0 THEN Len(ve) ELSE k) ELSE <<>>]
Laws(ve) ==
  LET d == Outcome(ve, Default)  r == Outcome(ve, Report)  f == Outcome(ve, FailOn)  b == Outcome(ve, Both) IN
  /\ r.err = d.err /\ r.ok = d.ok                               \* reporting changes nothing
  /\ (f.ok => d.ok)                                             \* fail-on-VE accepts less
  /\ (f.ok <=> (r.ok /\ r.recorded = <<>>))                     \* ... exactly the silent inputs
  /\ (b.ok <=> f.ok)
  /\ (r.ok => \A i \in 1..Len(r.recorded) : ~r.recorded[i].fatal)   \* needs: fatal always stops
  /\ (~d.ok => d.err[1].fatal)                                  \* a default-mode error is a failure
VARIABLE ve
Init == ve \in Runs
Next == FALSE /\ ve' = ve
Inv == Laws(ve)
====
