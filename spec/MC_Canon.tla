---- MODULE MC_Canon ----
(* Enumerates the ordinary-web-URL grammar (Canon.tla) over word sets supplied by bin/check and emits
   Mode "spell": one line per spelling (C17 inputs)            {"t":"u","in":..}
   Mode "class": one line per abstract URL with its class (C18) {"t":"cls","sp":[..],"std":BOOLEAN}
   Design checks on the specification (exact for the standard's part):
     StdClassInv  - all spellings of a class that uses only differences the standard normalises parse identically
     SpellDecodeInv - every C17 spelling differs from the plain text only inside path / query / fragment *)
EXTENDS Canon, Json
CONSTANTS Mode, Schemes, CredsSet, Hosts, Ports, SegWords, MaxSegs, Names, Values, MaxPairs, Frags, K

Tuples(S, n) == UNION {[1..k -> S] : k \in 0..n}
Abstract == [scheme : Schemes, creds : CredsSet, host : Hosts, port : Ports, segs : Tuples(SegWords, MaxSegs),
             query : {None} \cup {Some(q) : q \in Tuples(Names \X Values, MaxPairs)}, frag : {None} \cup {Some(f) : f \in Frags}]
(* two-step fan-out (TLC evaluates initial states on one thread): first the authority part, then the rest *)
Keys == [scheme : Schemes, creds : CredsSet, host : Hosts, port : Ports]
Blank == [scheme |-> <<>>, creds |-> <<>>, host |-> <<>>, port |-> <<>>, segs |-> <<>>, query |-> None, frag |-> None]
VARIABLES a, ph
Init == a = Blank /\ ph = 0
Next == \/ ph = 0 /\ ph' = 1 /\ \E k \in Keys : a' = [Blank EXCEPT !.scheme = k.scheme, !.creds = k.creds, !.host = k.host, !.port = k.port]
        \/ ph = 1 /\ ph' = 2 /\ \E x \in Abstract : x.scheme = a.scheme /\ x.creds = a.creds /\ x.host = a.host /\ x.port = a.port /\ a' = x
Active == ph = 2

SetToSeq(S) == LET RECURSIVE f(_) f(T) == IF T = {} THEN <<>> ELSE LET x == CHOOSE y \in T : TRUE IN <<x>> \o f(T \ {x}) IN f(S)
(* classes restricted to structural standard variations (no escapes): the standard itself normalises these *)
PureStdClass == {Text(a, {}, V) : V \in {W \in SubsetsUpTo(StdVariations, K) : Applicable(a, W)}}
StdClassInv == (Active /\ Mode = "class") => LET r0 == Parse(Text(a, {}, {}), None, None) IN
                 r0.res = "ok" /\ \A t \in PureStdClass : LET r == Parse(t, None, None) IN r.res = "ok" /\ r.u = r0.u
Emit == Active =>
  CASE Mode = "spell" -> \A t \in SpellingsC17(a, K) : PrintT(ToJson([t |-> "u", in |-> t]))
    [] Mode = "class" -> /\ PrintT(ToJson([t |-> "cls", std |-> TRUE, sp |-> SetToSeq(PureStdClass)]))
                         /\ PrintT(ToJson([t |-> "cls", std |-> FALSE, sp |-> SetToSeq(ClassOf(a, K, StdVariations \cup OtherVariations))]))
====
