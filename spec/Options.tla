---- MODULE Options ----
(* C16: every option as  [flag, Trigger(input, base), modelled effect / postcondition].
   An option may change the result of the default parser only when its trigger holds (conservative extension);
   where marked exact the result is predicted by running the specification with the option record.
   Names are those of harness/cmd/vh/options.go. *)
EXTENDS UrlInvariants

(* ---- option records (named deviations of BasicParser) ---- *)
AltSet(S) == SetDel(SetAdd(S, {124, 126}), {34})       \* the replacement set used by the harness: + '|' '~', - '"'
IPFS == <<105, 112, 102, 115>>
SemanticSpecial == DefaultSpecial @@ (GOPHER :> Some(70))                       \* the table of the Semantic profile
GopherSpecial == SemanticSpecial @@ (IPFS :> None)                              \* the harness's table: two added schemes, with and without a default port
OptsOf(name) ==
  CASE name = "special_gopher" -> [DefaultOpts EXCEPT !.special = GopherSpecial]
    [] name = "special_nofile" -> [DefaultOpts EXCEPT !.special = [sch \in (DOMAIN DefaultSpecial) \ {FILE} |-> DefaultSpecial[sch]]]
    [] name = "set_path"   -> [DefaultOpts EXCEPT !.sPath = AltSet(SetPath)]
    [] name = "set_query"  -> [DefaultOpts EXCEPT !.sQuery = AltSet(SetQuery)]
    [] name = "set_squery" -> [DefaultOpts EXCEPT !.sSQuery = AltSet(SetSpecialQuery)]
    [] name = "set_frag"   -> [DefaultOpts EXCEPT !.sFrag = AltSet(SetFragment)]
    [] name = "set_sfrag"  -> [DefaultOpts EXCEPT !.sSFrag = AltSet(SetFragment)]
    [] name = "collapse"   -> [DefaultOpts EXCEPT !.collapse = TRUE]
    [] name = "single_pct" -> [DefaultOpts EXCEPT !.singlePct = TRUE]
    [] name = "skip_drive" -> [DefaultOpts EXCEPT !.skipDrive = TRUE]
    [] name = "skip_trailing" -> [DefaultOpts EXCEPT !.skipTrail = TRUE]
    [] name = "lax_host"   -> [DefaultOpts EXCEPT !.lax = TRUE]
    [] name = "accept_invalid" -> [DefaultOpts EXCEPT !.acceptInvalid = TRUE]
    [] name = "latin1"     -> [DefaultOpts EXCEPT !.latin1 = TRUE]
    [] name = "pre_host_trim"  -> [DefaultOpts EXCEPT !.preHost = "trim"]
    [] name = "pre_host_const" -> [DefaultOpts EXCEPT !.preHost = "const"]
    [] name = "post_host_const" -> [DefaultOpts EXCEPT !.postHost = "const"]
    [] name = "allow_path_nonbase" -> DefaultOpts          \* the option is never consulted by the code
    [] OTHER -> DefaultOpts
ExactOptions == {"special_gopher", "set_path", "set_query", "set_squery", "set_frag", "set_sfrag"}

(* ---- triggers: predicates on the raw input and base strings ---- *)
Pre(s) == Preprocess(Ingest(s), FALSE)
HasRaw(s) == \E i \in 1..Len(s) : IsRaw(s[i])
HasBadPct(s) == LET p == Pre(s) IN \E i \in 1..Len(p) : p[i] = 37 /\ ~IsPctTriple(p, i)
IsSlash(c) == c \in {47, 92}
HasDoubleSlash(s) == LET p == Pre(s) IN \E i \in 1..(Len(p) - 1) : IsSlash(p[i]) /\ IsSlash(p[i + 1])
HasBar(s) == Contains(s, 124)
SchemeIs(s, sch) == LET p == Pre(s) IN Len(p) > Len(sch) /\ LowerSeq(SubSeq(p, 1, Len(sch))) = sch /\ p[Len(sch) + 1] = 58
AnyOf(P(_), in, bs) == P(in) \/ (bs # <<>> /\ P(bs[1]))
IsGopher(s) == SchemeIs(s, GOPHER) \/ SchemeIs(s, IPFS)        \* the input names one of the added schemes
Trigger(name, in, bs) ==
  CASE name = "accept_invalid" -> AnyOf(HasRaw, in, bs)
    [] name = "single_pct" -> AnyOf(HasBadPct, in, bs)
    [] name = "collapse" -> AnyOf(HasDoubleSlash, in, bs)
    [] name = "skip_drive" -> AnyOf(HasBar, in, bs)
    [] name = "special_gopher" -> AnyOf(IsGopher, in, bs)
    [] name = "accept_invalid+single_pct+collapse+skip_drive" ->
         AnyOf(HasRaw, in, bs) \/ AnyOf(HasBadPct, in, bs) \/ AnyOf(HasDoubleSlash, in, bs) \/ AnyOf(HasBar, in, bs)
    [] OTHER -> TRUE
NeutralOptions == {"accept_invalid", "single_pct", "collapse", "skip_drive", "special_gopher", "accept_invalid+single_pct+collapse+skip_drive"}
HostErrors == {"DomainToASCII", "DomainInvalidCodePoint", "HostInvalidCodePoint", "HostMissing", "IPv4EmptyPart", "IPv4TooManyParts", "IPv4NonNumericPart",
               "IPv4NonDecimalPart", "IPv4OutOfRangePart", "IPv6Unclosed", "IPv6InvalidCompression", "IPv6TooManyPieces", "IPv6MultipleCompression",
               "IPv6InvalidCodePoint", "IPv6TooFewPieces", "IPv4InIPv6TooManyPieces", "IPv4InIPv6InvalidCodePoint", "IPv4InIPv6OutOfRangePart", "IPv4InIPv6TooFewParts"}

(* ---- design check (MC_Parse families): each modelled trigger is sufficient on the specification ---- *)
TriggerSufficient(name, in, bstr, base) ==
  Trigger(name, in, IF bstr = None THEN <<>> ELSE <<Get(bstr)>>) \/
    LET d == ParseO(in, base, None, DefaultOpts)
        ob == IF bstr = None THEN None ELSE Some(ParseO(Get(bstr), None, None, OptsOf(name)).u)
        o == ParseO(in, ob, None, OptsOf(name))
    IN o.res = d.res /\ (d.res = "ok" => o.u = d.u)

(* ---- canonicalizer options as compositions of the standard's setters, in the code's order ---- *)
RemoveUserInfo(u) == SetPassword(SetUsername(u, <<>>), <<>>)
RemovePort(u) == SetPortO(DefaultOpts, u, <<>>)
RemoveFragment(u) == SetHashO(DefaultOpts, u, <<>>)
CanonSetters(name, u) ==
  CASE name = "remove_userinfo" -> RemoveUserInfo(u)
    [] name = "remove_port" -> RemovePort(u)
    [] name = "remove_fragment" -> RemoveFragment(u)
    [] name = "canon:remove_userinfo+remove_port+remove_fragment" -> RemoveFragment(RemoveUserInfo(RemovePort(u)))
    [] OTHER -> u
SetterOptions == {"remove_userinfo", "remove_port", "remove_fragment", "canon:remove_userinfo+remove_port+remove_fragment"}
====
