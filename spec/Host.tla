---- MODULE Host ----
(* WHATWG host parser: IPv4 / IPv6 / opaque / domain.  Domain-to-ASCII of a non-trivial
   domain (non-ASCII or ACE label) is an oracle parameter `idna` : None = failure, Some(ascii). *)
EXTENDS CodePoints

(* ---------- bignum: base-256 digits, least significant first, no high zero ---------- *)
RECURSIVE MulAdd(_, _, _)
MulAdd(ds, R, carry) ==
  IF ds = <<>> THEN (IF carry = 0 THEN <<>> ELSE <<carry % 256>> \o MulAdd(<<>>, R, carry \div 256))
  ELSE LET v == Head(ds) * R + carry IN
       LET rest == MulAdd(Tail(ds), R, v \div 256) IN
       IF rest = <<>> /\ v % 256 = 0 THEN <<>> ELSE <<v % 256>> \o rest
Octet(n, i) == IF i <= Len(n) THEN n[i] ELSE 0

IsRadixDigit(c, R) == IF R = 10 THEN IsDigit(c) ELSE IF R = 16 THEN IsHex(c) ELSE (c >= 48 /\ c <= 55)
RECURSIVE NumAcc(_, _, _, _)
NumAcc(s, i, R, acc) == IF i > Len(s) THEN acc ELSE NumAcc(s, i + 1, R, MulAdd(acc, R, HexVal(s[i])))

(* IPv4 number parser: None = failure, else Some(bignum) *)
ParseIPv4Number(input) ==
  IF input = <<>> THEN None
  ELSE LET hex == Len(input) >= 2 /\ input[1] = 48 /\ input[2] \in {120, 88}
           oct == ~hex /\ Len(input) >= 2 /\ input[1] = 48
           R == IF hex THEN 16 ELSE IF oct THEN 8 ELSE 10
           body == IF hex THEN Drop(input, 2) ELSE IF oct THEN Drop(input, 1) ELSE input
       IN IF body = <<>> THEN Some(<<>>)
          ELSE IF \E i \in 1..Len(body) : ~IsRadixDigit(body[i], R) THEN None
          ELSE Some(NumAcc(body, 1, R, <<>>))

EndsInANumber(input) ==
  LET parts0 == Split(input, 46)
      parts == IF Last(parts0) = <<>> THEN Front(parts0) ELSE parts0
  IN IF Last(parts0) = <<>> /\ Len(parts0) = 1 THEN FALSE
     ELSE LET last == Last(parts) IN
          \/ (last # <<>> /\ \A i \in 1..Len(last) : IsDigit(last[i]))
          \/ IsSome(ParseIPv4Number(last))

(* IPv4 parser: None = failure, Some(<<o1,o2,o3,o4>>) *)
ParseIPv4(input) ==
  LET parts0 == Split(input, 46)
      parts == IF Last(parts0) = <<>> /\ Len(parts0) > 1 THEN Front(parts0) ELSE parts0
      n == Len(parts)
  IN IF n > 4 THEN None
     ELSE LET nums == [i \in 1..n |-> ParseIPv4Number(parts[i])] IN
       IF \E i \in 1..n : nums[i] = None THEN None
       ELSE IF \E i \in 1..(n-1) : Len(Get(nums[i])) > 1 THEN None
       ELSE IF Len(Get(nums[n])) > 5 - n THEN None
       ELSE LET last == Get(nums[n]) IN
            Some([k \in 1..4 |-> IF k < n THEN Octet(Get(nums[k]), 1) ELSE Octet(last, 5 - k)])

SerIPv4(o) == DecStr(o[1]) \o <<46>> \o DecStr(o[2]) \o <<46>> \o DecStr(o[3]) \o <<46>> \o DecStr(o[4])

(* ---------- IPv6 ---------- *)
(* state record: a (8 pieces), pi, comp (0 = null), p (1-based pointer), fail *)
C6(in, p) == IF p > Len(in) THEN EOF ELSE in[p]

RECURSIVE V6HexRun(_, _, _, _)
(* returns <<value, length, newp>> *)
V6HexRun(in, p, value, length) ==
  IF length < 4 /\ IsHex(C6(in, p)) THEN V6HexRun(in, p + 1, value * 16 + HexVal(C6(in, p)), length + 1)
  ELSE <<value, length, p>>

RECURSIVE V6DecRun(_, _, _)
(* ipv4 piece digits: returns <<piece (-1 null, -2 failure), newp>> *)
V6DecRun(in, p, piece) ==
  IF IsDigit(C6(in, p)) THEN
     LET number == C6(in, p) - 48 IN
     IF piece = -1 THEN V6DecRun(in, p + 1, number)
     ELSE IF piece = 0 THEN <<-2, p>>
     ELSE IF piece * 10 + number > 255 THEN <<-2, p>>
     ELSE V6DecRun(in, p + 1, piece * 10 + number)
  ELSE <<piece, p>>

RECURSIVE V6V4(_, _, _, _, _)
(* ipv4-in-ipv6 loop; returns [ok, a, pi] *)
V6V4(in, p, a, pi, seen) ==
  IF C6(in, p) = EOF THEN [ok |-> seen = 4, a |-> a, pi |-> pi]
  ELSE LET sepOk == seen = 0 \/ (C6(in, p) = 46 /\ seen < 4)
           p1 == IF seen > 0 THEN p + 1 ELSE p
       IN IF ~sepOk THEN [ok |-> FALSE, a |-> a, pi |-> pi]
          ELSE IF ~IsDigit(C6(in, p1)) THEN [ok |-> FALSE, a |-> a, pi |-> pi]
          ELSE LET r == V6DecRun(in, p1, -1) IN
               IF r[1] = -2 THEN [ok |-> FALSE, a |-> a, pi |-> pi]
               ELSE LET a2 == [a EXCEPT ![pi] = a[pi] * 256 + r[1]]
                        seen2 == seen + 1
                        pi2 == IF seen2 = 2 \/ seen2 = 4 THEN pi + 1 ELSE pi
                    IN V6V4(in, r[2], a2, pi2, seen2)

RECURSIVE V6Main(_, _, _, _, _)
(* pieces are indexed 1..8 here (pi is spec's pieceIndex + 1); comp = 0 means null, else spec's compress + 1 *)
V6Main(in, p, a, pi, comp) ==
  IF C6(in, p) = EOF THEN [ok |-> TRUE, a |-> a, pi |-> pi, comp |-> comp]
  ELSE IF pi = 9 THEN [ok |-> FALSE, a |-> a, pi |-> pi, comp |-> comp]
  ELSE IF C6(in, p) = 58 THEN
       IF comp # 0 THEN [ok |-> FALSE, a |-> a, pi |-> pi, comp |-> comp]
       ELSE V6Main(in, p + 1, a, pi + 1, pi + 1)
  ELSE LET hr == V6HexRun(in, p, 0, 0)
           value == hr[1]  length == hr[2]  p1 == hr[3]
       IN IF C6(in, p1) = 46 THEN
            IF length = 0 THEN [ok |-> FALSE, a |-> a, pi |-> pi, comp |-> comp]
            ELSE IF pi > 7 THEN [ok |-> FALSE, a |-> a, pi |-> pi, comp |-> comp]
            ELSE LET r == V6V4(in, p1 - length, a, pi, 0) IN [ok |-> r.ok, a |-> r.a, pi |-> r.pi, comp |-> comp]
          ELSE IF C6(in, p1) = 58 THEN
            IF C6(in, p1 + 1) = EOF THEN [ok |-> FALSE, a |-> a, pi |-> pi, comp |-> comp]
            ELSE V6Main(in, p1 + 1, [a EXCEPT ![pi] = value], pi + 1, comp)
          ELSE IF C6(in, p1) # EOF THEN [ok |-> FALSE, a |-> a, pi |-> pi, comp |-> comp]
          ELSE V6Main(in, p1, [a EXCEPT ![pi] = value], pi + 1, comp)

RECURSIVE V6Swap(_, _, _, _)
V6Swap(a, pi, swaps, comp) ==
  IF pi # 1 /\ swaps > 0
  THEN V6Swap([a EXCEPT ![pi] = a[comp + swaps - 1], ![comp + swaps - 1] = a[pi]], pi - 1, swaps - 1, comp)
  ELSE a

Zero8 == [i \in 1..8 |-> 0]
(* None = failure, Some(address as 8 pieces) *)
ParseIPv6(in) ==
  LET startOk == C6(in, 1) # 58 \/ C6(in, 2) = 58
      r == IF C6(in, 1) = 58 THEN V6Main(in, 3, Zero8, 2, 2) ELSE V6Main(in, 1, Zero8, 1, 0)
  IN IF ~startOk THEN None
     ELSE IF ~r.ok THEN None
     ELSE IF r.comp # 0 THEN Some(V6Swap(r.a, 8, r.pi - r.comp, r.comp))
     ELSE IF r.pi # 9 THEN None
     ELSE Some(r.a)

(* first longest run of >= 2 zero pieces: returns start index (0 if none) *)
RunLen(a, i) == LET S == {k \in i..8 : \A j \in i..k : a[j] = 0} IN Cardinality(S)
V6Compress(a) ==
  LET best == {i \in 1..8 : RunLen(a, i) >= 2 /\ \A j \in 1..8 : RunLen(a, j) <= RunLen(a, i)}
  IN IF best = {} THEN 0 ELSE CHOOSE i \in best : \A j \in best : i <= j

RECURSIVE SerV6Acc(_, _, _, _)
SerV6Acc(a, i, comp, ignore0) ==
  IF i > 8 THEN <<>>
  ELSE IF ignore0 /\ a[i] = 0 THEN SerV6Acc(a, i + 1, comp, TRUE)
  ELSE IF comp = i THEN (IF i = 1 THEN <<58, 58>> ELSE <<58>>) \o SerV6Acc(a, i + 1, comp, TRUE)
  ELSE HexStr(a[i]) \o (IF i # 8 THEN <<58>> ELSE <<>>) \o SerV6Acc(a, i + 1, comp, FALSE)
SerIPv6(a) == SerV6Acc(a, 1, V6Compress(a), FALSE)

(* ---------- domain ---------- *)
IsAce(label) == Len(label) >= 4 /\ LowerSeq(SubSeq(label, 1, 4)) = <<120, 110, 45, 45>>
TrivialDomain(d) == (\A i \in 1..Len(d) : d[i] < 128)
                    /\ LET ls == Split(d, 46) IN \A i \in 1..Len(ls) : ~IsAce(ls[i])

HostFail(asked) == [ok |-> FALSE, host |-> <<>>, asked |-> asked, kind |-> "fail"]
HostOk(h, asked, kind) == [ok |-> TRUE, host |-> h, asked |-> asked, kind |-> kind]

ParseOpaqueHost(input) ==
  IF \E i \in 1..Len(input) : IsForbiddenHost(input[i]) THEN HostFail(None)
  ELSE HostOk(EncStr(SetC0, input), None, "opaque")

ParseHost(input, isOpaque, idna) ==
  IF input # <<>> /\ input[1] = 91 THEN
     IF Last(input) # 93 THEN HostFail(None)
     ELSE LET r == ParseIPv6(SubSeq(input, 2, Len(input) - 1)) IN
          IF r = None THEN HostFail(None) ELSE HostOk(<<91>> \o SerIPv6(Get(r)) \o <<93>>, None, "ipv6")
  ELSE IF isOpaque THEN ParseOpaqueHost(input)
  ELSE LET bytes == PctDecode(input)
           dec == Utf8Decode(bytes)
       IN IF dec = None THEN HostFail(None)
          ELSE LET domain == Get(dec)
                   triv == TrivialDomain(domain)
                   asked == IF triv THEN None ELSE Some(domain)
                   ascii == IF triv THEN Some(LowerSeq(domain)) ELSE idna
               IN IF ascii = None \/ Get(ascii) = <<>> THEN HostFail(asked)
                  ELSE LET ad == Get(ascii) IN
                    IF \E i \in 1..Len(ad) : IsForbiddenDomain(ad[i]) THEN HostFail(asked)
                    ELSE IF EndsInANumber(ad) THEN
                         (LET v4 == ParseIPv4(ad) IN IF v4 = None THEN HostFail(asked) ELSE HostOk(SerIPv4(Get(v4)), asked, "ipv4"))
                    ELSE HostOk(ad, asked, "domain")
====
