---- MODULE MC_Api ----
(* H-mode instances of the object machine.
   Tree    : all histories of length <= Depth over the op alphabet (hist is part of the state); every state is emitted
             as its history plus the expected state of every handle after the last step.
   Closure : VIEW = objs, so TLC computes the closure of the abstract states under the op alphabet - every history of
             any length; every transition is emitted (ACTION_CONSTRAINT) as path-to-source + op with the expected
             state after the last step.
   Simulate: tlc -simulate, long random histories up to Depth, every prefix emitted.
   Constants come from a generated module (bin/check). *)
EXTENDS UrlApi, Options, Json
CONSTANTS Starts,      \* set of start URL strings (handle 1)
          SetterOps,   \* set of <<setter name, value>>
          SpOps,       \* set of <<list op, name, value>>
          ReadOps,     \* set of <<reader, name>>
          XferOps,     \* set of <<how, name, value>>: SetSearchParams with an argument built as UrlApi!XferList describes
          DetOps,      \* set of <<list op, name, value>> applied to a detached copy (SearchParams.Clone) of a live handle's list
          Refs,        \* set of reference strings resolved against a live handle
          Depth,       \* history bound (tree / simulate); ignored for closure
          Mode,        \* "tree" | "closure" | "simulate"
          WithClone, ActOn,  \* BOOLEAN; ActOn = set of handles that may be mutated
          MaxList      \* closure mode: states whose parameter list is longer are not expanded (append would never stop)

Free == IF \E h \in Handles : ~objs[h].live THEN {CHOOSE h \in Handles : ~objs[h].live /\ \A k \in Handles : ~objs[k].live => h <= k} ELSE {}

(* a URL obtained from Parser.NewUrl() instead of a parse: the empty record (no scheme, null host, empty non-opaque path) *)
NewUrlInit == LET os == [h \in Handles |-> IF h = 1 THEN Obj(EmptyUrl) ELSE Dead] IN
              /\ objs = os /\ actor = 1
              /\ hist = <<StepRec("newurl", 1, 0, "", <<>>, <<>>, FALSE, os)>>
MInit == \E s \in Starts :
           LET r == ParseO(s, None, None, POpts)
               os == [h \in Handles |-> IF h = 1 THEN Obj(r.u) ELSE Dead] IN
           /\ r.res = "ok"
           /\ objs = os /\ actor = 1
           /\ hist = <<StepRec("parse", 1, 0, "", s, <<>>, FALSE, os)>>

Act == \/ \E h \in Live \cap ActOn, op \in SetterOps : Setter(h, op[1], op[2])
       \/ \E h \in Live \cap ActOn, op \in SpOps : SPMutate(h, op[1], op[2], op[3])
       \/ \E h \in Live \cap ActOn, op \in XferOps : IF op[1] \in {"copy", "live"} THEN \E hs \in Live : SetSP(h, hs, op[1], op[2], op[3])
                                                                                          ELSE SetSP(h, 0, op[1], op[2], op[3])
       \/ \E h \in Live, op \in DetOps : SPDetached(h, op[1], op[2], op[3])
       \/ \E h \in Live, op \in ReadOps : Reader(h, op[1], op[2])
       \/ \E hb \in Live, hn \in Free, ref \in Refs : Resolve(hb, hn, ref)
       \/ (WithClone /\ \E h \in Live, hn \in Free : Clone(h, hn))
MNext == (Mode = "closure" \/ Len(hist) < Depth) /\ Act
MSpec == MInit /\ [][MNext]_avars

View == objs      \* closure mode: history variables hidden
ListBound == \A h \in Handles : /\ Len(objs[h].params) <= MaxList
                                  /\ \A i \in 1..Len(objs[h].params) : Len(objs[h].params[i][2]) <= 6    \* iterappend grows values without bound

(* emission: the history so far, with the expected state of every handle after its last step *)
EmitState == Mode # "closure" => PrintT(ToJson([t |-> "h", nobj |-> NH, steps |-> WithObs(hist, objs)]))
EmitEdge == Mode = "closure" => PrintT(ToJson([t |-> "h", nobj |-> NH, steps |-> WithObs(hist', objs')]))
EmitInit == (Mode = "closure" /\ Len(hist) = 1) => PrintT(ToJson([t |-> "h", nobj |-> NH, steps |-> WithObs(hist, objs)]))
====
