---- MODULE Setters ----
(* The nine API setters of the URL Standard (section 6.1), exactly: guards, "potentially strip trailing
   spaces from an opaque path", and partial effects that persist when the overridden parse fails. *)
EXTENDS BasicParser
CannotHaveUPP(u) == u.host = None \/ u.host = Some(<<>>) \/ u.scheme = FILE
RECURSIVE StripSp(_)
StripSp(s) == IF s # <<>> /\ Last(s) = 32 THEN StripSp(Front(s)) ELSE s
StripIfOpaque(u) == IF u.opaque /\ u.frag = None /\ u.query = None THEN [u EXCEPT !.opath = StripSp(@)] ELSE u

SetProtocolO(o, u, v, idna) == ParseOvO(Append(v, 58), u, "schemeStart", idna, o).u
(* WithPercentEncodeSinglePercentSign also governs the credential setters: a '%' that starts no valid escape is written %25 *)
EncStrO(o, S, s) == EncStrSP(o, S, s)
SetUsernameO(o, u, v) == IF CannotHaveUPP(u) THEN u ELSE [u EXCEPT !.user = EncStrO(o, SetUserinfo, Ingest(v))]
SetPasswordO(o, u, v) == IF CannotHaveUPP(u) THEN u ELSE [u EXCEPT !.pass = EncStrO(o, SetUserinfo, Ingest(v))]
SetUsername(u, v) == SetUsernameO(DefaultOpts, u, v)
SetPassword(u, v) == SetPasswordO(DefaultOpts, u, v)
SetHostO(o, u, v, idna) == IF u.opaque THEN u ELSE ParseOvO(v, u, "host", idna, o).u
SetHostnameO(o, u, v, idna) == IF u.opaque THEN u ELSE ParseOvO(v, u, "hostname", idna, o).u
SetPortO(o, u, v) == IF CannotHaveUPP(u) THEN u ELSE IF v = <<>> THEN [u EXCEPT !.port = None] ELSE ParseOvO(v, u, "port", None, o).u
SetPathnameO(o, u, v) == IF u.opaque THEN u ELSE ParseOvO(v, [u EXCEPT !.path = <<>>], "pathStart", None, o).u
SetSearchO(o, u, v) == IF v = <<>> THEN StripIfOpaque([u EXCEPT !.query = None])
                       ELSE ParseOvO(IF v[1] = 63 THEN Tail(v) ELSE v, [u EXCEPT !.query = Some(<<>>)], "query", None, o).u
SetHashO(o, u, v) == IF v = <<>> THEN StripIfOpaque([u EXCEPT !.frag = None])
                     ELSE ParseOvO(IF v[1] = 35 THEN Tail(v) ELSE v, [u EXCEPT !.frag = Some(<<>>)], "fragment", None, o).u
SetterNames == {"protocol", "username", "password", "host", "hostname", "port", "pathname", "search", "hash"}
ApplyO(o, u, op, v, idna) ==
  CASE op = "protocol" -> SetProtocolO(o, u, v, idna)
    [] op = "username" -> SetUsernameO(o, u, v)
    [] op = "password" -> SetPasswordO(o, u, v)
    [] op = "host" -> SetHostO(o, u, v, idna)
    [] op = "hostname" -> SetHostnameO(o, u, v, idna)
    [] op = "port" -> SetPortO(o, u, v)
    [] op = "pathname" -> SetPathnameO(o, u, v)
    [] op = "search" -> SetSearchO(o, u, v)
    [] op = "hash" -> SetHashO(o, u, v)
Apply(u, op, v, idna) == ApplyO(DefaultOpts, u, op, v, idna)
====
