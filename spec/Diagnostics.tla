---- MODULE Diagnostics ----
(* The validation-error INVENTORY of the WHATWG basic URL parser (24 May 2023 snapshot): which validation errors a run raises, in order.
   It is an observer of the parser run of BasicParser.tla - VeStep(s, c) is the list of validation errors the state s.st raises on code
   point c, a function of the pre-state only - so the parser model itself is untouched and costs nothing when the inventory is not asked for.

   No listed property demands that the library report exactly the standard's validation errors (C15 is about the internal consistency of
   the diagnostics options, DESIGN.md 4/C15); the inventory is therefore bound to the code as INFORMATION: Trace_Events!CheckDiag compares
   the types recorded by the reporting parser with VeTypes(...) and tags a difference "note:", which the orchestrator counts
   (evidence: spec_drift_notes) and never turns into a verdict.

   Scope: everything outside the host parser, plus the host parser's errors for opaque hosts and for trivial domains (pure ASCII, no ACE
   label) including the IPv4 parser, and the IPv6 parser's fatal errors; IDNA-dependent domains are reported as "unknown" and not compared. *)
EXTENDS BasicParser

InvalidUnitAt(in, i) == LET c == in[i] IN (~IsUrlCp(c) /\ c # 37) \/ (c = 37 /\ ~IsPctTriple(in, i))
UnitVe(s, c) == IF c # EOF /\ InvalidUnitAt(s.input, s.ptr) THEN <<"InvalidURLUnit">> ELSE <<>>

(* ---- host parser ---- *)
V4NumVe(part) ==      \* the IPv4 number parser's validation-error flag
  LET hex == Len(part) >= 2 /\ part[1] = 48 /\ part[2] \in {120, 88}
      oct == ~hex /\ Len(part) >= 2 /\ part[1] = 48
  IN hex \/ oct
V4Ve(ad) ==
  LET parts0 == Split(ad, 46)
      trailing == Last(parts0) = <<>> /\ Len(parts0) > 1
      parts == IF trailing THEN Front(parts0) ELSE parts0
      n == Len(parts)
      nums == [i \in 1..n |-> ParseIPv4Number(parts[i])]
  IN (IF trailing THEN <<"IPv4EmptyPart">> ELSE <<>>)
     \o (IF n > 4 THEN <<"IPv4TooManyParts">>
         ELSE IF \E i \in 1..n : nums[i] = None THEN <<"IPv4NonNumericPart">>
         ELSE (IF \E i \in 1..n : V4NumVe(parts[i]) THEN <<"IPv4NonDecimalPart">> ELSE <<>>)
              \o (IF ParseIPv4(ad) = None \/ \E i \in 1..n : Len(Get(nums[i])) > 1 THEN <<"IPv4OutOfRangePart">> ELSE <<>>))   \* any part above 255, the last one included
(* the IPv6 parser's (fatal) validation error: "" when the address parses; mirrors Host!V6Main / V6V4 exit by exit *)
RECURSIVE V6V4Err(_, _, _)
V6V4Err(in, p, seen) ==
  IF C6(in, p) = EOF THEN (IF seen = 4 THEN "" ELSE "IPv4InIPv6TooFewParts")
  ELSE LET sepOk == seen = 0 \/ (C6(in, p) = 46 /\ seen < 4)
           p1 == IF seen > 0 THEN p + 1 ELSE p
       IN IF ~sepOk \/ ~IsDigit(C6(in, p1)) THEN "IPv4InIPv6InvalidCodePoint"
          ELSE LET r == V6DecRun(in, p1, -1) IN
               IF r[1] = -2 THEN (IF C6(in, r[2] - 1) = 48 /\ (r[2] - 1 = p1) THEN "IPv4InIPv6InvalidCodePoint" ELSE "IPv4InIPv6OutOfRangePart")
               ELSE V6V4Err(in, r[2], seen + 1)
RECURSIVE V6MainErr(_, _, _, _)
V6MainErr(in, p, pi, comp) ==
  IF C6(in, p) = EOF THEN (IF comp = 0 /\ pi # 9 THEN "IPv6TooFewPieces" ELSE "")
  ELSE IF pi = 9 THEN "IPv6TooManyPieces"
  ELSE IF C6(in, p) = 58 THEN (IF comp # 0 THEN "IPv6MultipleCompression" ELSE V6MainErr(in, p + 1, pi + 1, pi + 1))
  ELSE LET hr == V6HexRun(in, p, 0, 0)
           length == hr[2]  p1 == hr[3]
       IN IF C6(in, p1) = 46 THEN
            (IF length = 0 THEN "IPv4InIPv6InvalidCodePoint"
             ELSE IF pi > 7 THEN "IPv4InIPv6TooManyPieces"
             ELSE LET e == V6V4Err(in, p1 - length, 0) IN
                  IF e # "" THEN e
                  ELSE IF comp = 0 /\ pi + 2 # 9 THEN "IPv6TooFewPieces" ELSE "")
          ELSE IF C6(in, p1) = 58 THEN (IF C6(in, p1 + 1) = EOF THEN "IPv6InvalidCodePoint" ELSE V6MainErr(in, p1 + 1, pi + 1, comp))
          ELSE IF C6(in, p1) # EOF THEN "IPv6InvalidCodePoint"
          ELSE V6MainErr(in, p1, pi + 1, comp)
V6Err(in) ==
  IF C6(in, 1) = 58 /\ C6(in, 2) # 58 THEN "IPv6InvalidCompression"
  ELSE IF C6(in, 1) = 58 THEN V6MainErr(in, 3, 2, 2) ELSE V6MainErr(in, 1, 1, 0)

HostVe(o, buf, isOpaque) ==      \* <<known, list>>
  LET h == PreHost(o, buf) IN
  IF h = <<>> THEN <<TRUE, <<>>>>
  ELSE IF h[1] = 91 THEN
     (IF Last(h) # 93 THEN <<TRUE, <<"IPv6Unclosed">>>>
      ELSE LET e == V6Err(SubSeq(h, 2, Len(h) - 1)) IN
           IF (e = "") # (ParseIPv6(SubSeq(h, 2, Len(h) - 1)) # None) THEN <<FALSE, <<>>>>      \* the classifier must agree with the parser it mirrors
           ELSE <<TRUE, IF e = "" THEN <<>> ELSE <<e>>>>)
  ELSE IF isOpaque THEN
     (IF \E i \in 1..Len(h) : IsForbiddenHost(h[i]) THEN <<TRUE, <<"HostInvalidCodePoint">>>>
      ELSE <<TRUE, IF \E i \in 1..Len(h) : InvalidUnitAt(h, i) THEN <<"InvalidURLUnit">> ELSE <<>>>>)
  ELSE LET dec == Utf8Decode(DecodeO(o, BytesOfT(h), 1)) IN
       IF dec = None THEN <<FALSE, <<>>>>
       ELSE LET d == Get(dec) IN
            IF ~TrivialDomain(d) \/ (\E l \in {Split(d, 46)[i] : i \in 1..Len(Split(d, 46))} : IsAce(l)) THEN <<FALSE, <<>>>>
            ELSE LET ad == LowerSeq(d) IN
                 IF ad = <<>> THEN <<TRUE, <<"DomainToASCII">>>>
                 ELSE IF \E i \in 1..Len(ad) : IsForbiddenDomain(ad[i]) THEN <<TRUE, <<"DomainInvalidCodePoint">>>>
                 ELSE IF EndsInANumber(ad) THEN <<TRUE, V4Ve(ad)>>
                 ELSE <<TRUE, <<>>>>

(* ---- one state-machine iteration ---- *)
VeStep(s, c) ==      \* <<known, list>>
  LET K(l) == <<TRUE, l>>
      term == c = EOF \/ c \in {47, 63, 35} \/ SpecialBackslash(s, c)
  IN
  CASE s.st = "schemeStart" -> K(<<>>)
    [] s.st = "scheme" ->
         K(IF c = 58 /\ ~Ov(s) /\ s.buf = FILE /\ ~StartsWith(Remaining(s), <<47, 47>>) THEN <<"SpecialSchemeMissingFollowingSolidus">> ELSE <<>>)
    [] s.st = "noScheme" -> K(IF s.base = None \/ (B(s).opaque /\ c # 35) THEN <<"MissingSchemeNonRelativeURL">> ELSE <<>>)
    [] s.st = "specialRelativeOrAuthority" ->
         K(IF c = 47 /\ StartsWith(Remaining(s), <<47>>) THEN <<>> ELSE <<"SpecialSchemeMissingFollowingSolidus">>)
    [] s.st = "pathOrAuthority" -> K(<<>>)
    [] s.st = "relative" -> K(IF IsSpecialO(s.opts, B(s).scheme) /\ c = 92 THEN <<"InvalidReverseSolidus">> ELSE <<>>)
    [] s.st = "relativeSlash" -> K(IF Sp(s) /\ c = 92 THEN <<"InvalidReverseSolidus">> ELSE <<>>)
    [] s.st = "specialAuthoritySlashes" ->
         K(IF c = 47 /\ StartsWith(Remaining(s), <<47>>) THEN <<>> ELSE <<"SpecialSchemeMissingFollowingSolidus">>)
    [] s.st = "specialAuthorityIgnoreSlashes" -> K(IF c \in {47, 92} THEN <<"SpecialSchemeMissingFollowingSolidus">> ELSE <<>>)
    [] s.st = "authority" ->
         K(IF c = 64 THEN <<"InvalidCredentials">>
           ELSE IF term /\ s.at /\ s.buf = <<>> THEN <<"InvalidCredentials">> ELSE <<>>)
    [] s.st \in {"host", "hostname"} ->
         IF Ov(s) /\ s.u.scheme = FILE THEN K(<<>>)
         ELSE IF c = 58 /\ ~s.br THEN
           (IF s.buf = <<>> THEN K(<<"HostMissing">>) ELSE IF s.ov = "hostname" THEN K(<<>>) ELSE HostVe(s.opts, s.buf, ~Sp(s)))
         ELSE IF term THEN
           (IF Sp(s) /\ s.buf = <<>> THEN K(<<"HostMissing">>)
            ELSE IF Ov(s) /\ s.buf = <<>> /\ (HasCreds(s.u) \/ IsSome(s.u.port)) THEN K(<<>>)
            ELSE HostVe(s.opts, s.buf, ~Sp(s)))
         ELSE K(<<>>)
    [] s.st = "port" ->
         K(IF IsDigit(c) THEN <<>>
           ELSE IF term \/ Ov(s) THEN (IF s.buf # <<>> /\ PortVal(s.buf, 1, 0) > 65535 THEN <<"PortOutOfRange">> ELSE <<>>)
           ELSE <<"PortInvalid">>)
    [] s.st = "file" ->
         K(IF c = 92 THEN <<"InvalidReverseSolidus">>
           ELSE IF c \notin {47, 63, 35} /\ c # EOF /\ IsSome(s.base) /\ B(s).scheme = FILE /\ StartsWithWinLetter(FromPtr(s))
                THEN <<"FileInvalidWindowsDriveLetter">> ELSE <<>>)
    [] s.st = "fileSlash" -> K(IF c = 92 THEN <<"InvalidReverseSolidus">> ELSE <<>>)
    [] s.st = "fileHost" ->
         IF c = EOF \/ c \in {47, 92, 63, 35} THEN
           (IF ~Ov(s) /\ IsWinLetter(s.buf) THEN K(<<"FileInvalidWindowsDriveLetterHost">>)
            ELSE IF s.buf = <<>> THEN K(<<>>) ELSE HostVe(s.opts, s.buf, ~Sp(s)))
         ELSE K(<<>>)
    [] s.st = "pathStart" -> K(IF Sp(s) /\ c = 92 THEN <<"InvalidReverseSolidus">> ELSE <<>>)
    [] s.st = "path" ->
         K(IF c = EOF \/ c = 47 \/ SpecialBackslash(s, c) \/ (~Ov(s) /\ c \in {63, 35})
           THEN (IF SpecialBackslash(s, c) THEN <<"InvalidReverseSolidus">> ELSE <<>>)
           ELSE UnitVe(s, c))
    [] s.st = "opaquePath" -> K(IF c \in {63, 35} THEN <<>> ELSE UnitVe(s, c))
    [] s.st = "query" -> K(IF (~Ov(s) /\ c = 35) \/ c = EOF THEN <<>> ELSE UnitVe(s, c))
    [] s.st = "fragment" -> K(UnitVe(s, c))

RECURSIVE RunVe(_, _, _)
RunVe(s, known, acc) ==
  IF s.res # "run" THEN <<known, acc>>
  ELSE LET v == VeStep(s, Cur(s)) IN RunVe(Step(s), known /\ v[1], acc \o v[2])

(* the inventory of parsing `in` (no state override): <<known, list of types>>; the first entry is the pre-processing error
   (leading / trailing C0-or-space, or an embedded tab / newline: one invalid-URL-unit each) *)
PreVe(in) ==
  LET t == Ingest(in) IN
  (IF TrimRight(TrimLeft(t)) # t THEN <<"InvalidURLUnit">> ELSE <<>>)
  \o (IF \E i \in 1..Len(t) : IsTabNl(t[i]) THEN <<"InvalidURLUnit">> ELSE <<>>)
VeOf(in, base, opts) ==
  LET r == RunVe([PInitO(Preprocess(Ingest(in), FALSE), base, EmptyUrl, "none", None, opts) EXCEPT !.rawin = Preprocess(in, FALSE)], TRUE, <<>>)
  IN <<r[1], PreVe(in) \o r[2]>>
TypeSet(l) == {l[i] : i \in 1..Len(l)}
====
