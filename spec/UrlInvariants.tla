---- MODULE UrlInvariants ----
(* State predicates on URL records (spec side) and on getter records (spec side AND observed values):
   C03 round trip, C04 well-formedness + composition, C19 derived accessors.
   A "getter record" g has the keys of GettersO; every predicate named *G speaks about g only, so it can be
   evaluated on values observed from the real code without any spec state. *)
EXTENDS FormUrlencoded

(* ---------- C04: structural invariants of the record ---------- *)
SchemeOk(sch) == sch # <<>> /\ IsLower(sch[1]) /\ \A i \in 1..Len(sch) : IsLower(sch[i]) \/ IsDigit(sch[i]) \/ sch[i] \in {43, 45, 46}
WellFormedO(o, x) ==
  /\ SchemeOk(x.scheme)
  /\ (IsSpecialO(o, x.scheme) => x.host # None /\ (x.scheme = FILE \/ Get(x.host) # <<>>) /\ ~x.opaque /\ x.path # <<>>)
  /\ (x.opaque => x.host = None)
  /\ ((HasCreds(x) \/ x.port # None) => (x.host # None /\ Get(x.host) # <<>> /\ x.scheme # FILE))
  /\ (x.port # None => Get(x.port) >= 0 /\ Get(x.port) <= 65535 /\ x.port # DefaultPortO(o, x.scheme))
WellFormed(x) == WellFormedO(DefaultOpts, x)

NoneIn(S, str) == \A i \in 1..Len(str) : ~InSet(S, str[i])
Printable(str) == \A i \in 1..Len(str) : str[i] >= 32 /\ str[i] <= 126
HostCpOk(special, h) ==
  IF IsV6Host(h) THEN \A i \in 2..(Len(h) - 1) : IsHex(h[i]) \/ h[i] = 58
  ELSE IF special THEN \A i \in 1..Len(h) : ~IsForbiddenDomain(h[i]) /\ ~IsUpper(h[i]) /\ h[i] < 128
  ELSE \A i \in 1..Len(h) : ~IsForbiddenHost(h[i])
(* no component contains a code point its percent-encode set / forbidden set excludes *)
ComponentsOkO(o, x) ==
  /\ NoneIn(SetUserinfo, x.user) /\ NoneIn(SetUserinfo, x.pass)
  /\ (x.opaque => NoneIn(SetC0, x.opath))
  /\ (~x.opaque => \A i \in 1..Len(x.path) : /\ NoneIn(o.sPath, x.path[i])
                                             /\ \A j \in 1..Len(x.path[i]) : x.path[i][j] # 47
                                             /\ (IsSpecialO(o, x.scheme) => \A j \in 1..Len(x.path[i]) : x.path[i][j] # 92))
  /\ (x.query # None => NoneIn(IF IsSpecialO(o, x.scheme) THEN o.sSQuery ELSE o.sQuery, Get(x.query)))
  /\ (x.frag # None => NoneIn(IF IsSpecialO(o, x.scheme) THEN o.sSFrag ELSE o.sFrag, Get(x.frag)))
  /\ (x.host # None => HostCpOk(IsSpecialO(o, x.scheme), Get(x.host)))
  /\ Printable(Href(x, FALSE))
ComponentsOk(x) == ComponentsOkO(DefaultOpts, x)

(* ---------- C04 on getter values ---------- *)
(* hostNull/queryNull/fragNull say whether the component is null (from the record when available).
   Href = protocol + [// + userinfo + host] + ['/.' guard] + pathname + ['?' query] + ['#' fragment] *)
UserInfoG(g) == IF g.username # <<>> \/ g.password # <<>>
                THEN g.username \o (IF g.password # <<>> THEN <<58>> \o g.password ELSE <<>>) \o <<64>> ELSE <<>>
ComposeG(g, hostNull, queryNull, fragNull, noFrag) ==
  g.protocol
  \o (IF ~hostNull THEN <<47, 47>> \o UserInfoG(g) \o g.host
      ELSE IF ~g.opaque /\ StartsWith(g.pathname, <<47, 47>>) THEN <<47, 46>> ELSE <<>>)
  \o g.pathname
  \o (IF queryNull THEN <<>> ELSE <<63>> \o g.query)
  \o (IF fragNull \/ noFrag THEN <<>> ELSE <<35>> \o g.fragment)
CompositionG(g, hostNull, queryNull, fragNull) ==
  /\ g.href = ComposeG(g, hostNull, queryNull, fragNull, FALSE)
  /\ g.hrefnf = ComposeG(g, hostNull, queryNull, fragNull, TRUE)
  /\ g.host = (IF g.port = <<>> THEN g.hostname ELSE g.hostname \o <<58>> \o g.port)
(* the same using public values only: some choice of the three null flags explains Href *)
CompositionPublicG(g) ==
  \E hn \in (IF g.host = <<>> THEN BOOLEAN ELSE {FALSE}), qn \in (IF g.query = <<>> THEN BOOLEAN ELSE {FALSE}),
     fn \in (IF g.fragment = <<>> THEN BOOLEAN ELSE {FALSE}) : CompositionG(g, hn, qn, fn)

PortCanonicalG(g) == g.port = <<>> \/ (/\ \A i \in 1..Len(g.port) : IsDigit(g.port[i])
                                       /\ (Len(g.port) = 1 \/ g.port[1] # 48) /\ Len(g.port) <= 5 /\ PortVal(g.port, 1, 0) <= 65535)
(* structural invariants stated on getter values (default special-scheme table) *)
WellFormedG(g) ==
  /\ SchemeOk(g.scheme)
  /\ g.special = IsSpecial(g.scheme)
  /\ (g.special => ~g.opaque /\ g.pathname # <<>> /\ g.pathname[1] = 47 /\ (g.scheme = FILE \/ g.hostname # <<>>))
  /\ (g.opaque => g.hostname = <<>> /\ g.port = <<>> /\ g.username = <<>> /\ g.password = <<>>)
  /\ (~g.opaque => g.pathname = <<>> \/ g.pathname[1] = 47)
  /\ ((g.username # <<>> \/ g.password # <<>> \/ g.port # <<>>) => g.hostname # <<>> /\ g.scheme # FILE)
  /\ PortCanonicalG(g)
  /\ (g.port # <<>> /\ DefaultPort(g.scheme) # None => PortVal(g.port, 1, 0) # Get(DefaultPort(g.scheme)))
  /\ Printable(g.href)
  /\ NoneIn(SetUserinfo, g.username) /\ NoneIn(SetUserinfo, g.password)
  /\ NoneIn(IF g.opaque THEN SetC0 ELSE SetDel(SetPath, {}), g.pathname)
  /\ NoneIn(IF g.special THEN SetSpecialQuery ELSE SetQuery, g.query)
  /\ NoneIn(SetFragment, g.fragment)
  /\ HostCpOk(g.special, g.hostname)
  /\ (g.special => ~Contains(g.pathname, 92))

(* ---------- C19: derived accessors vs primary components, on getter values ---------- *)
DerivedG(g) ==
  /\ g.ipv6 = IsV6Host(g.hostname)
  /\ g.ipv4 = (g.special /\ IsDottedDecimal(g.hostname))
  /\ g.dport = (IF g.port # <<>> THEN PortVal(g.port, 1, 0)
                ELSE IF DefaultPort(g.scheme) # None THEN Get(DefaultPort(g.scheme)) ELSE 0)
  /\ g.protocol = Append(g.scheme, 58)
  /\ g.search = (IF g.query = <<>> THEN <<>> ELSE <<63>> \o g.query)
  /\ g.hash = (IF g.fragment = <<>> THEN <<>> ELSE <<35>> \o g.fragment)
  /\ g.special = IsSpecial(g.scheme)
  /\ StartsWith(g.href, g.protocol)
  /\ (g.opaque => ~StartsWith(g.pathname, <<47>>) /\ StartsWith(Drop(g.href, Len(g.protocol)), g.pathname))
  /\ (~g.opaque => g.pathname = <<>> \/ g.pathname[1] = 47)

(* ---------- C03: serialize-then-parse ---------- *)
RoundTripO(o, x) == LET r == ParseO(Href(x, FALSE), None, None, o) IN r.res = "ok" /\ r.u = x
RoundTrip(x) == RoundTripO(DefaultOpts, x)
====
