CONSTANTS
 G = {g1, g2, g3}
 LazyInitOnClone = FALSE
 Calls = {"resolve", "getter", "parse", "canon"}
INIT Init
NEXT Next
INVARIANT NoRace
INVARIANT TablesFrozen
INVARIANT ResultsAsAlone
INVARIANT ReadOnlyCallsWriteNothing
CHECK_DEADLOCK FALSE
