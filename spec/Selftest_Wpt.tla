---- MODULE Selftest_Wpt ----
(* Oracle self-test: the specification against the standard's own vectors (WPT urltestdata.json).
   If this does not report BAD 0 the run is broken (exit 2), never a violation. *)
EXTENDS BasicParser, Json
Trace == ndJsonDeserialize("wpt.ndjson")
VARIABLES l, bad
G(u) == [href |-> Href(u, FALSE), protocol |-> Protocol(u), username |-> u.user, password |-> u.pass,
         host |-> HostGetter(u), hostname |-> Hostname(u), port |-> PortStr(u), pathname |-> SerPath(u),
         search |-> Search(u), hash |-> Hash(u)]
Expected(e) == [href |-> e.href, protocol |-> e.protocol, username |-> e.username, password |-> e.password,
               host |-> e.host, hostname |-> e.hostname, port |-> e.port, pathname |-> e.pathname,
               search |-> e.search, hash |-> e.hash]
Eval(e) ==
  LET idna == IF e.fail THEN None ELSE Some(e.hostname)
      baseR == IF e.base = <<>> THEN None ELSE Some(Parse(e.base[1], None, None))
  IN IF baseR # None /\ Get(baseR).res = "fail" THEN [fail |-> TRUE, g |-> <<>>, note |-> "basefail"]
     ELSE LET b == IF baseR = None THEN None ELSE Some(Get(baseR).u)
              r == Parse(e.input, b, idna)
              r2 == IF r.res = "fail" /\ ~e.fail /\ r.u.scheme = FILE THEN Parse(e.input, b, Some(LOCALHOST)) ELSE r
          IN IF r2.res = "fail" THEN [fail |-> TRUE, g |-> <<>>, note |-> "fail"]
             ELSE [fail |-> FALSE, g |-> G(r2.u), note |-> "ok"]
Init == l = 1 /\ bad = <<>>
Next == /\ l <= Len(Trace)
        /\ l' = l + 1
        /\ LET e == Trace[l]  r == Eval(e) IN
           bad' = IF r.fail # e.fail \/ (~e.fail /\ r.g # Expected(e)) THEN Append(bad, [id |-> e.id, got |-> r]) ELSE bad
Done == (l = Len(Trace) + 1) => PrintT(<<"SELFTEST", Len(Trace), Len(bad), ToJson(bad)>>)
====
