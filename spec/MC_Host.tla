---- MODULE MC_Host ----
(* The host sub-model checked directly: one TLC state per host string (no state machine around it).
   Mode "text" : every host text  HPre \o w \o HSuf, w over Alphabet; design invariants of C07 / C08 / C09 on the
                 specification; one expected behaviour per frame (scheme://HOST/...) emitted for replay.
   Mode "v6val": every address with pieces from Pieces (3^8 zero-run patterns); canonical text and alternative
                 spellings (upper case, leading zeros, uncompressed, other legal '::' placement, dotted tail).
   Mode "class": equivalence classes of spellings of a base host (ASCII case flips, whole-code-point percent-encoding). *)
EXTENDS UrlInvariants, Json
CONSTANTS Mode, Alphabet, MinLen, MaxLen, HPre, HSuf, Frames, Pieces, BaseHosts, MaxVar

Strings == UNION {[1..k -> Alphabet] : k \in MinLen..MaxLen}
Domain == IF Mode = "text" THEN Strings ELSE IF Mode = "v6val" THEN [1..8 -> Pieces] ELSE BaseHosts
(* Every object of Domain is one TLC state.  TLC evaluates initial states (and their invariants) on ONE thread, so the
   objects are reached in two steps instead: the single initial state fans out into NB bucket states, and each bucket
   state into the objects of its bucket - the per-object work (parser runs, emission) is then spread over all workers. *)
NB == 64
RECURSIVE SumSeq(_)
SumSeq(x) == IF x = <<>> THEN 0 ELSE Head(x) + SumSeq(Tail(x))
Bucket(x) == (Len(x) + SumSeq(x)) % NB
VARIABLES w,     \* the enumerated object: host middle text | address | base host
          ph     \* 0 = initial, 1..NB = bucket chosen, NB + 1 = object chosen
Init == w = <<>> /\ ph = 0
Next == \/ ph = 0 /\ \E b \in 1..NB : ph' = b /\ w' = <<>>
        \/ ph \in 1..NB /\ \E x \in Domain : Bucket(x) = ph - 1 /\ w' = x /\ ph' = NB + 1
Active == ph = NB + 1

H == HPre \o w \o HSuf
PLine(in) == LET r == Parse(in, None, None) IN
             [t |-> "p", in |-> in, bs |-> <<>>, fail |-> r.res = "fail",
              g |-> IF r.res = "ok" THEN Getters(r.u) ELSE Getters(EmptyUrl), asked |-> r.asked # None]

(* ---------------- C07 ---------------- *)
(* "a number in the standard's sense": only decimal digits, or 0x/0X followed by hex digits (possibly none) *)
IsNumberLabel(L) == \/ (L # <<>> /\ \A i \in 1..Len(L) : IsDigit(L[i]))
                    \/ (Len(L) >= 2 /\ L[1] = 48 /\ L[2] \in {120, 88} /\ \A i \in 3..Len(L) : IsHex(L[i]))
LastLabelIsNumber(d) == LET ps == Split(d, 46)
                            qs == IF Last(ps) = <<>> THEN Front(ps) ELSE ps
                        IN qs # <<>> /\ IsNumberLabel(Last(qs))
SmallVal(n) == \* value of a bignum (base-256 digits, least significant first) when it fits in 3 digits
  (IF Len(n) >= 1 THEN n[1] ELSE 0) + 256 * (IF Len(n) >= 2 THEN n[2] ELSE 0) + 65536 * (IF Len(n) >= 3 THEN n[3] ELSE 0)
RECURSIVE DecVal(_, _, _)
DecVal(s, i, acc) == IF i > Len(s) THEN acc ELSE DecVal(s, i + 1, acc * 10 + (s[i] - 48))
V4Inv ==
  LET d == LowerSeq(H)                      \* the alphabet has no '%', so the decoded domain is the lowercased text
      r == ParseHost(H, FALSE, None)
      o == ParseHost(H, TRUE, None)
  IN (Active /\ Mode = "text" /\ H # <<>> /\ r.asked = None) =>
     /\ (LastLabelIsNumber(d) => (r.kind = "ipv4" \/ ~r.ok))              \* ends in a number: address or failure
     /\ (~LastLabelIsNumber(d) => (r.kind # "ipv4" /\ (r.ok => r.host = d)))   \* never turned into an address
     /\ (r.kind = "ipv4" => /\ IsDottedDecimal(r.host)
                            /\ ParseHost(r.host, FALSE, None).host = r.host     \* serialization is a fixed point
                            /\ (LET ps == Split(d, 46) IN                        \* plain dotted decimal reads as itself
                                (Len(ps) = 4 /\ \A i \in 1..4 : ps[i] # <<>> /\ Len(ps[i]) <= 3 /\ ps[i][1] # 48 /\ (\A j \in 1..Len(ps[i]) : IsDigit(ps[i][j])))
                                  => r.host = d)
                            /\ (LET n == ParseIPv4Number(d) IN                   \* a single small number is its base-256 reading
                                (~Contains(d, 46) /\ IsDigit(d[1]) /\ d[1] # 48 /\ Len(d) <= 7 /\ \A j \in 1..Len(d) : IsDigit(d[j]))
                                  => SmallVal(Get(n)) = DecVal(d, 1, 0) /\ Len(Get(n)) <= 3))
     /\ (o.ok => o.host = EncStr(SetC0, H) /\ o.kind = "opaque")          \* hosts of non-special URLs are never reinterpreted

(* ---------------- C08 ---------------- *)
HexNoLead(n) == HexStr(n)
(* the unique canonical text, defined independently of the serializer loop: compress the FIRST LONGEST run of >= 2 zero pieces *)
CanonText(a) ==
  LET runs == {<<s, n>> \in (1..8) \X (2..8) : s + n - 1 <= 8 /\ (\A j \in s..(s + n - 1) : a[j] = 0)
                                            /\ (s = 1 \/ a[s - 1] # 0) /\ (s + n - 1 = 8 \/ a[s + n] # 0)}
      best == IF runs = {} THEN <<0, 0>>
              ELSE CHOOSE r \in runs : \A q \in runs : r[2] > q[2] \/ (r[2] = q[2] /\ r[1] <= q[1])
      hexes(lo, hi) == JoinWith([i \in 1..(hi - lo + 1) |-> HexNoLead(a[lo + i - 1])], 58)
  IN IF best[1] = 0 THEN hexes(1, 8)
     ELSE hexes(1, best[1] - 1) \o <<58, 58>> \o hexes(best[1] + best[2], 8)
V6TextInv ==
  (Active /\ Mode = "text") =>
    LET r == ParseIPv6(w) IN
    r # None => /\ SerIPv6(Get(r)) = CanonText(Get(r))                 \* canonical, by the independent definition
                /\ ParseIPv6(SerIPv6(Get(r))) = r                      \* serialize-then-parse is the identity
                /\ LowerSeq(SerIPv6(Get(r))) = SerIPv6(Get(r))
V6ValInv == (Active /\ Mode = "v6val") => SerIPv6(w) = CanonText(w) /\ ParseIPv6(SerIPv6(w)) = Some(w)

Pad4(n) == LET h == HexStr(n) IN Repeat(<<48>>, 4 - Len(h)) \o h
Full(a, pad, up) == LET t == JoinWith([i \in 1..8 |-> IF pad THEN Pad4(a[i]) ELSE HexStr(a[i])], 58) IN IF up THEN UpperSeq(t) ELSE t
(* compress the run of zero pieces s..s+n-1 (any run of >= 1 zeros is legal input) *)
AltCompress(a) == {LET hexes(lo, hi) == JoinWith([i \in 1..(hi - lo + 1) |-> HexStr(a[lo + i - 1])], 58)
                   IN hexes(1, sn[1] - 1) \o <<58, 58>> \o hexes(sn[1] + sn[2], 8)
                   : sn \in {<<s, n>> \in (1..8) \X (1..8) : s + n - 1 <= 8 /\ \A j \in s..(s + n - 1) : a[j] = 0}}
Dotted(a) == JoinWith([i \in 1..6 |-> HexStr(a[i])], 58) \o <<58>>
             \o DecStr(a[7] \div 256) \o <<46>> \o DecStr(a[7] % 256) \o <<46>> \o DecStr(a[8] \div 256) \o <<46>> \o DecStr(a[8] % 256)
Spellings6(a) == {SerIPv6(a), Full(a, FALSE, FALSE), Full(a, TRUE, FALSE), Full(a, FALSE, TRUE), Dotted(a)} \cup AltCompress(a)
(* every spelling parses to the same address (design) *)
V6SpellInv == (Active /\ Mode = "v6val") => \A t \in Spellings6(w) : ParseIPv6(t) = Some(w)

(* ---------------- C09: spelling classes ---------------- *)
FlipCase(c) == IF IsUpper(c) THEN c + 32 ELSE IF IsLower(c) THEN c - 32 ELSE c
PctUp(c) == PctCp(c)
PctLow(c) == LowerSeq(PctCp(c))        \* lower-case hex digits
(* variants of one code point: itself, case-flipped (ASCII letters), percent-encoded in either hex case *)
CpVariants(c) == {<<c>>, PctUp(c), PctLow(c)} \cup (IF IsAlpha(c) THEN {<<FlipCase(c)>>, PctUp(FlipCase(c))} ELSE {})
RECURSIVE SpellAcc(_, _, _)
(* all spellings of b[i..] using at most k varied positions *)
SpellAcc(b, i, k) ==
  IF i > Len(b) THEN {<<>>}
  ELSE LET rest0 == SpellAcc(b, i + 1, k)
           same == {<<b[i]>> \o t : t \in rest0}
       IN IF k = 0 THEN same
          ELSE same \cup {v \o t : v \in CpVariants(b[i]) \ {<<b[i]>>}, t \in SpellAcc(b, i + 1, k - 1)}
SpellingsOf(b) == SpellAcc(b, 1, MaxVar)
SetToSeq(S) == LET RECURSIVE f(_) f(T) == IF T = {} THEN <<>> ELSE LET x == CHOOSE y \in T : TRUE IN <<x>> \o f(T \ {x}) IN f(S)
(* design: on the specification every spelling of a TRIVIAL base host yields the same host *)
ClassInv == (Active /\ Mode = "class" /\ TrivialDomain(w)) =>
              \A t \in SpellingsOf(w) : ParseHost(t, FALSE, None) = ParseHost(w, FALSE, None)

(* ---------------- emission ---------------- *)
Emit == Active =>
  CASE Mode = "text" -> \A fr \in Frames : PrintT(ToJson(PLine(fr[1] \o H \o fr[2])))
    [] Mode = "v6val" -> \A t \in Spellings6(w), fr \in Frames :
                           PrintT(ToJson(PLine(fr[1] \o <<91>> \o t \o <<93>> \o fr[2])))
    [] Mode = "class" -> PrintT(ToJson([t |-> "c", base |-> w, frames |-> SetToSeq(Frames), hosts |-> SetToSeq(SpellingsOf(w)),
                                        trivial |-> TrivialDomain(w),
                                        exp |-> LET r == ParseHost(w, FALSE, None) IN IF r.ok THEN <<r.host>> ELSE <<>>]))
====
