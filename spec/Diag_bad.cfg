CONSTANTS
 MaxLen = 3
 FatalAlwaysStops = FALSE
INIT Init
NEXT Next
INVARIANT Inv
CHECK_DEADLOCK FALSE
