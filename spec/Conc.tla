---- MODULE Conc ----
(* C14: concurrent read-only use of parsers, profiles and URL values, as a memory-access model.
   Goroutines run public read-only calls concurrently; each call is a short program of atomic accesses to the
   shared locations, shaped like the code path:
     resolve = read parser options, read tables, read the base's components, clone the base (reads its parameter list)
     getter  = read the base's components
     parse   = read parser options, read tables
     canon   = read profile options, read tables (the profile's parser), then work on a private URL
   The library has no synchronisation, so two accesses of different goroutines to one location conflict iff one
   of them writes:  NoRace  <=>  read-only calls write nothing shared.
   LazyInitOnClone is the named deviation of the pinned tree before fix d84563b: Clone called SearchParams() on the
   base, which creates the base's parameter list on first use - a write reachable from a read path. *)
EXTENDS ConcProg
CONSTANTS G, Calls
VARIABLES heap, call, pc, accesses, result
vars == <<heap, call, pc, accesses, result>>
InitHeap == [l \in Locs |-> IF l = "B.searchParams" THEN "nil" ELSE "init"]
Init == /\ heap = InitHeap
        /\ call \in [G -> Calls]
        /\ pc = [g \in G |-> 1]
        /\ accesses = {}
        /\ result = [g \in G |-> <<>>]
Step(g) ==
  /\ pc[g] <= Len(Prog(call[g]))
  /\ LET a == Prog(call[g])[pc[g]]
         loc == a[2]
         writes == a[1] = "RW" /\ heap[loc] = "nil"
     IN /\ accesses' = accesses \cup {[g |-> g, loc |-> loc, kind |-> "R"]}
                                 \cup (IF writes THEN {[g |-> g, loc |-> loc, kind |-> "W"]} ELSE {})
        /\ heap' = IF writes THEN [heap EXCEPT ![loc] = "obj"] ELSE heap
        \* what the call computes depends only on immutable data: the values read from opts/tables/components
        /\ result' = [result EXCEPT ![g] = IF loc = "B.searchParams" THEN @ ELSE Append(@, heap[loc])]
  /\ pc' = [pc EXCEPT ![g] = @ + 1]
  /\ UNCHANGED call
Next == \E g \in G : Step(g)
Spec == Init /\ [][Next]_vars

Alone(c) == LET p == Prog(c) IN [i \in 1..Cardinality({j \in 1..Len(p) : p[j][2] # "B.searchParams"}) |-> "init"]
NoRace == ~\E a, b \in accesses : a.g # b.g /\ a.loc = b.loc /\ "W" \in {a.kind, b.kind}
TablesFrozen == heap["T.tables"] = "init" /\ heap["P.opts"] = "init" /\ heap["B.components"] = "init"
ResultsAsAlone == \A g \in G : pc[g] > Len(Prog(call[g])) => result[g] = Alone(call[g])
ReadOnlyCallsWriteNothing == \A c \in Calls : WritesOf(c) = {}
====
