CONSTANT TraceFile = "events.ndjson"
INIT Init
NEXT Next
INVARIANT Done
CHECK_DEADLOCK FALSE
POSTCONDITION AllConsumed
