---- MODULE Selftest_Setters ----
(* Oracle self-test: the setter algorithms against WPT setters_tests.json. *)
EXTENDS Setters, Json
Trace == ndJsonDeserialize("setters.ndjson")
VARIABLES l, bad
G(u) == [href |-> Href(u, FALSE), protocol |-> Protocol(u), username |-> u.user, password |-> u.pass,
         host |-> HostGetter(u), hostname |-> Hostname(u), port |-> PortStr(u), pathname |-> SerPath(u),
         search |-> Search(u), hash |-> Hash(u)]
Eval(e) ==
  LET u0 == Parse(e.href, None, None)
      u1 == Apply(u0.u, e.op, e.value, IF e.idna = <<>> THEN None ELSE Some(e.idna[1]))
      g == G(u1)
  IN [startok |-> u0.res = "ok", g |-> g, okk |-> \A k \in {e.has[i] : i \in 1..Len(e.has)} : g[k] = e.exp[k]]
Init == l = 1 /\ bad = <<>>
Next == /\ l <= Len(Trace)
        /\ l' = l + 1
        /\ LET e == Trace[l]  r == Eval(e) IN
           bad' = IF ~r.startok \/ ~r.okk THEN Append(bad, [id |-> e.id, op |-> e.op, got |-> r.g]) ELSE bad
Done == (l = Len(Trace) + 1) => PrintT(<<"SELFTEST", Len(Trace), Len(bad), ToJson(bad)>>)
====
