---- MODULE Canon ----
(* The canonicalizer layer (C17 / C18):
   - the ORDINARY-WEB-URL GRAMMAR of C17: http/https/ftp/ws/wss scheme, a host of letter-digit-hyphen labels or an
     IPv4/IPv6 literal, optional credentials and port, path segments, query names/values and fragment made of
     RFC 3986 unreserved characters, each written literally or percent-encoded to any nesting depth;
   - the SPELLING-VARIATION OPERATORS of C18;
   - the canonicalizer's own options as compositions of the standard's setters (Options.tla: CanonSetters) -
     the profiles WhatWg / WhatWgSortQuery and every option-composed profile are thereby exact;
   For GoogleSafeBrowsing / Semantic the specification GENERATES the domain and STATES the laws (fixed point, class
   equality); it does not predict their output (experimental options are constrained by C16 only). *)
EXTENDS Options

(* ---- abstract URL of the grammar: decoded words; every character of a word is an unreserved character ---- *)
(* [scheme, creds, host, port, segs, query, frag]
     creds : <<>> | <<user>> | <<user, password>>      port : <<>> (absent) | <<digits>>
     segs  : sequence of words                          query: None | Some(sequence of <<name, value>>)   frag: None | Some(word) *)
DefaultPortText(sch) == IF DefaultPort(sch) = None THEN <<>> ELSE DecStr(Get(DefaultPort(sch)))

(* ---- spelling of one unreserved character: literal, escaped (either hex case), nested once or twice ---- *)
Nest(esc) == <<37, 50, 53>> \o Tail(esc)                 \* %XX -> %25XX
SpellingsOfChar == <<"lit", "up", "low", "nest", "nest2">>
SpellChar(c, how) ==
  CASE how = "lit" -> <<c>>
    [] how = "up" -> PctCp(c)
    [] how = "low" -> LowerSeq(PctCp(c))
    [] how = "nest" -> Nest(PctCp(c))
    [] how = "nest2" -> Nest(Nest(PctCp(c)))

(* A word is spelled by a function position -> how.  Spl is a set of <<component id, position, how>> overrides;
   everything not overridden is literal. Component ids: <<"seg", i>>, <<"name", i>>, <<"val", i>>, <<"frag", 0>>. *)
HowOf(Spl, comp, i) == IF \E o \in Spl : o[1] = comp /\ o[2] = i THEN (CHOOSE o \in Spl : o[1] = comp /\ o[2] = i)[3] ELSE "lit"
SpellWord(w, Spl, comp) == Flat([i \in 1..Len(w) |-> SpellChar(w[i], HowOf(Spl, comp, i))])
Sites(a) ==    \* all <<component, position>> pairs that can be re-spelled
  UNION {{<<<<"seg", i>>, j>> : j \in 1..Len(a.segs[i])} : i \in 1..Len(a.segs)}
  \cup (IF a.query = None THEN {} ELSE
        LET q == Get(a.query) IN
        UNION {{<<<<"name", i>>, j>> : j \in 1..Len(q[i][1])} \cup {<<<<"val", i>>, j>> : j \in 1..Len(q[i][2])} : i \in 1..Len(q)})
  \cup (IF a.frag = None THEN {} ELSE {<<<<"frag", 0>>, j>> : j \in 1..Len(Get(a.frag))})

(* ---- structural variations (C18). V is a set of variation names. ---- *)
StdVariations == {"schemecase", "hostcase", "port_default", "port_empty", "dot", "dotdot", "dot_pct", "dotdot_pct", "dotdot_pct_ll", "dotdot_pct_lu", "dotdot_pct_ul",
                  "tab", "lf", "cr", "lead", "trail"}
OtherVariations == {"emptyfrag"}
PathText(a, Spl, V) ==
  LET segtext(i) == SpellWord(a.segs[i], Spl, <<"seg", i>>)
      dots == (IF "dot" \in V THEN <<47, 46>> ELSE <<>>) \o (IF "dot_pct" \in V THEN <<47, 37, 50, 101>> ELSE <<>>)
              \o (IF "dotdot" \in V THEN <<47, 120, 47, 46, 46>> ELSE <<>>) \o (IF "dotdot_pct" \in V THEN <<47, 121, 47, 37, 50, 69, 46>> ELSE <<>>)
              \* every way of writing both dots of '..' as escapes: %2e%2e, %2e%2E, %2E%2e
              \o (IF "dotdot_pct_ll" \in V THEN <<47, 122, 47, 37, 50, 101, 37, 50, 101>> ELSE <<>>)
              \o (IF "dotdot_pct_lu" \in V THEN <<47, 118, 47, 37, 50, 101, 37, 50, 69>> ELSE <<>>)
              \o (IF "dotdot_pct_ul" \in V THEN <<47, 119, 47, 37, 50, 69, 37, 50, 101>> ELSE <<>>)
  IN IF a.segs = <<>> THEN dots \o <<47>>
     ELSE dots \o Flat([i \in 1..Len(a.segs) |-> <<47>> \o segtext(i)])
QueryText(a, Spl) ==
  IF a.query = None THEN <<>>
  ELSE LET q == Get(a.query) IN
       <<63>> \o JoinWith([i \in 1..Len(q) |-> SpellWord(q[i][1], Spl, <<"name", i>>) \o <<61>> \o SpellWord(q[i][2], Spl, <<"val", i>>)], 38)
Text(a, Spl, V) ==
  LET scheme == IF "schemecase" \in V THEN UpperSeq(a.scheme) ELSE a.scheme
      creds == IF a.creds = <<>> THEN <<>> ELSE IF Len(a.creds) = 1 THEN a.creds[1] \o <<64>> ELSE a.creds[1] \o <<58>> \o a.creds[2] \o <<64>>
      host == IF "hostcase" \in V THEN UpperSeq(a.host) ELSE a.host
      port == IF a.port # <<>> THEN <<58>> \o a.port[1]
              ELSE IF "port_default" \in V THEN <<58>> \o DefaultPortText(a.scheme)
              ELSE IF "port_empty" \in V THEN <<58>> ELSE <<>>
      frag == IF a.frag # None THEN <<35>> \o SpellWord(Get(a.frag), Spl, <<"frag", 0>>) ELSE IF "emptyfrag" \in V THEN <<35>> ELSE <<>>
      core == scheme \o <<58>> \o (IF "tab" \in V THEN <<9>> ELSE <<>>) \o <<47, 47>> \o creds \o host \o port
              \o (IF "lf" \in V THEN <<10>> ELSE <<>>) \o PathText(a, Spl, V) \o (IF "cr" \in V THEN <<13>> ELSE <<>>) \o QueryText(a, Spl) \o frag
  IN (IF "lead" \in V THEN <<32, 9>> ELSE <<>>) \o core \o (IF "trail" \in V THEN <<10, 32>> ELSE <<>>)
Applicable(a, V) == /\ ~({"port_default", "port_empty"} \subseteq V)
                    /\ (a.port # <<>> => V \cap {"port_default", "port_empty"} = {})
                    /\ (a.frag # None => "emptyfrag" \notin V)

(* ---- sets of spellings ---- *)
SubsetsUpTo(S, k) == {T \in SUBSET S : Cardinality(T) <= k}
(* C17: every way of spelling at most K characters non-literally *)
EscapeChoices(a, K) ==
  LET sites == Sites(a) IN
  UNION {{Spl \in SUBSET (T \X {"up", "low", "nest", "nest2"}) :
             Cardinality(Spl) = Cardinality(T) /\ \A t \in T : \E o \in Spl : o[1] = t}
         : T \in SubsetsUpTo(sites, K)}
Flatten3(Spl) == {<<o[1][1], o[1][2], o[2]>> : o \in Spl}
SpellingsC17(a, K) == {Text(a, Flatten3(Spl), {}) : Spl \in EscapeChoices(a, K)}
(* C18: classes - the plain text plus every combination of at most K variations (structural ones and escapes at the
   first character of the first segment / first value / fragment) *)
EscSites(a) == (IF a.segs # <<>> THEN {<<<<"seg", 1>>, 1>>} ELSE {})
               \cup (IF a.query # None /\ Get(a.query) # <<>> /\ Last(Get(a.query))[1] # <<>> THEN {<<<<"name", Len(Get(a.query))>>, 1>>} ELSE {})   \* a NAME: sort order
               \cup (IF a.query # None /\ Get(a.query) # <<>> /\ Get(a.query)[1][2] # <<>> THEN {<<<<"val", 1>>, 1>>} ELSE {})
               \cup (IF a.frag # None THEN {<<<<"frag", 0>>, 1>>} ELSE {})
EscVariations(a) == EscSites(a) \X {"up", "low", "nest", "nest2"}
ClassOf(a, K, vars) ==
  LET escs == EscVariations(a)
      choices == {<<V, E>> \in SubsetsUpTo(vars, K) \X SubsetsUpTo(escs, K) :
                     /\ Cardinality(V) + Cardinality(E) <= K
                     /\ Applicable(a, V)
                     /\ \A x, y \in E : x[1] = y[1] => x = y}
  IN {Text(a, Flatten3(c[2]), c[1]) : c \in choices}

(* ================= the canonicalizer's own pipeline, exactly (canonicalizer/canonicalizer.go) =================
   A profile built from the canonicalizer's options on the DEFAULT parser is a composition of modelled parts:
   default parse (+ default-scheme retry), repeated percent-decoding of host / path / every parameter name and value /
   fragment re-entered through the standard's setters, remove-port / remove-user-info / remove-fragment (setters), and
   sort-query on the list machine with the library's serializer.  CanonRun predicts its output for ANY input. *)
Profile(rep, rport, ruser, rfrag, sort, dscheme) ==
  [repeated |-> rep, removePort |-> rport, removeUserInfo |-> ruser, removeFragment |-> rfrag, sort |-> sort, defaultScheme |-> dscheme,
   opts |-> DefaultOpts, skipEq |-> FALSE]
(* the two predefined experimental profiles: every parser option they set is modelled in BasicParser (collapse, single-percent,
   replaced sets, special schemes, host function, lax host parsing, accept-invalid-code-points, the Latin-1 override), so their output
   is predicted for ANY input whose host does not need the IDNA oracle. *)
LaxQuerySet == SetDel(SetQuery, {34, 37, 47, 59, 63, 123})
GsbOpts == [DefaultOpts EXCEPT !.sQuery = LaxQuerySet, !.collapse = TRUE, !.singlePct = TRUE, !.preHost = "gsb", !.lax = TRUE, !.acceptInvalid = TRUE]
SemanticOpts == [DefaultOpts EXCEPT !.special = SemanticSpecial, !.sPath = SetDel(SetPath, {46, 60, 62}), !.sQuery = LaxQuerySet, !.collapse = TRUE,
                                    !.singlePct = TRUE, !.preHost = "semantic", !.lax = TRUE, !.acceptInvalid = TRUE, !.latin1 = TRUE]
ProfileOf(name) ==
  CASE name = "WhatWg" -> Profile(FALSE, FALSE, FALSE, FALSE, "none", <<>>)
    [] name = "WhatWgSortQuery" -> Profile(FALSE, FALSE, FALSE, FALSE, "keys", <<>>)
    [] name = "canon:remove_userinfo" -> Profile(FALSE, FALSE, TRUE, FALSE, "none", <<>>)
    [] name = "canon:remove_port" -> Profile(FALSE, TRUE, FALSE, FALSE, "none", <<>>)
    [] name = "canon:remove_fragment" -> Profile(FALSE, FALSE, FALSE, TRUE, "none", <<>>)
    [] name = "canon:sort_keys" -> Profile(FALSE, FALSE, FALSE, FALSE, "keys", <<>>)
    [] name = "canon:sort_param" -> Profile(FALSE, FALSE, FALSE, FALSE, "param", <<>>)
    [] name = "canon:default_scheme" -> Profile(FALSE, FALSE, FALSE, FALSE, "none", <<HTTP>>)
    [] name = "canon:repeated_decode" -> Profile(TRUE, FALSE, FALSE, FALSE, "none", <<>>)
    [] name = "canon:remove_userinfo+remove_port+remove_fragment+sort_keys+default_scheme+repeated_decode" -> Profile(TRUE, TRUE, TRUE, TRUE, "keys", <<HTTP>>)
    [] name = "canon:remove_fragment+sort_param+repeated_decode" -> Profile(TRUE, FALSE, FALSE, TRUE, "param", <<>>)
    [] name = "canon:remove_port+sort_keys" -> Profile(FALSE, TRUE, FALSE, FALSE, "keys", <<>>)
    [] name = "GoogleSafeBrowsing" -> [Profile(TRUE, TRUE, FALSE, TRUE, "none", <<HTTP>>) EXCEPT !.opts = GsbOpts, !.skipEq = TRUE]
    [] name = "Semantic" -> [Profile(TRUE, FALSE, TRUE, TRUE, "keys", <<HTTP>>) EXCEPT !.opts = SemanticOpts]
ModelledProfiles == {"WhatWg", "WhatWgSortQuery", "canon:remove_userinfo", "canon:remove_port", "canon:remove_fragment", "canon:sort_keys", "canon:sort_param",
                     "canon:default_scheme", "canon:repeated_decode", "canon:remove_userinfo+remove_port+remove_fragment+sort_keys+default_scheme+repeated_decode",
                     "canon:remove_fragment+sort_param+repeated_decode", "canon:remove_port+sort_keys", "GoogleSafeBrowsing", "Semantic"}
ExperimentalProfiles == {"GoogleSafeBrowsing", "Semantic"}

(* bytes of a Go string given as text (raw pseudo code points are single bytes) *)
BytesOf(t) == BytesOfT(t)
RECURSIVE DecodeBytesAcc(_, _)
DecodeBytesAcc(b, i) == IF i > Len(b) THEN <<>>
                        ELSE IF IsPctTriple(b, i) THEN <<16 * HexVal(b[i+1]) + HexVal(b[i+2])>> \o DecodeBytesAcc(b, i + 3)
                        ELSE <<b[i]>> \o DecodeBytesAcc(b, i + 1)
DecodeBytes(b) == DecodeBytesAcc(b, 1)
RECURSIVE RepeatedDecode(_)
RepeatedDecode(b) == LET d == DecodeBytes(b) IN IF d = b THEN b ELSE RepeatedDecode(d)       \* decode to a fixed point
EncodeBytes(S, b) == Flat([i \in 1..Len(b) |-> IF InSet(SetAdd(S, {37}), b[i]) THEN PctByte(b[i]) ELSE <<b[i]>>])   \* encode once; '%' always
DecodeEncode(t, S) == EncodeBytes(S, RepeatedDecode(BytesOf(t)))
LaxPathSet == SetDel(SetPath, {46, 60, 62})
RepQuerySet == SetAdd(SetC0Space, {35, 37, 38, 61})

(* parameter lists are kept as BYTE strings here (Go strings): the canonicalizer works on bytes, and a decoded name may not be UTF-8 *)
DecForm(o, item) == DecodeO(o, BytesOfT(PlusToSpace(item)), 1)
PairBytes(o, item) == LET k == IndexOf(item, 61) IN
                      IF k = 0 THEN <<DecForm(o, item), <<>>>>
                      ELSE <<DecForm(o, SubSeq(item, 1, k - 1)), DecForm(o, Drop(item, k))>>
ParseQBytes(o, q) == LET items == SelectSeq(Split(q, 38), NonEmpty) IN [i \in 1..Len(items) |-> PairBytes(o, items[i])]
(* the library's serializer on a byte string: it ranges over RUNES - an invalid byte becomes U+FFFD, a space '+' *)
RECURSIVE ImplEscBytes(_, _, _)
ImplEscBytes(o, b, i) ==
  IF i > Len(b) THEN <<>>
  ELSE LET r == Utf8At(b, i) IN
       (IF r[1] = 32 THEN <<43>> ELSE Enc1(o, o.sQuery, IF r[1] = -1 THEN 65533 ELSE r[1])) \o ImplEscBytes(o, b, i + r[2])
SerQBytes(pr, l) == IF l = <<>> THEN <<>>
                    ELSE JoinWith([i \in 1..Len(l) |-> ImplEscBytes(pr.opts, l[i][1], 1)
                                                       \o (IF pr.skipEq /\ l[i][2] = <<>> THEN <<>> ELSE <<61>>) \o ImplEscBytes(pr.opts, l[i][2], 1)], 38)
WriteBack(pr, u, l) == LET q == SerQBytes(pr, l) IN [u EXCEPT !.query = IF q # <<>> THEN Some(q) ELSE IF u.query # None THEN Some(<<>>) ELSE None]
ListNow(o, u, lst) == IF lst # None THEN Get(lst) ELSE IF u.query = None THEN <<>> ELSE ParseQBytes(o, Get(u.query))
DecodeEncodeB(b, S) == EncodeBytes(S, RepeatedDecode(b))

(* the result: [u, asked] ; asked = TRUE when a non-trivial domain would need the IDNA oracle (no prediction) *)
CanonSteps(pr, uin) ==
  (* the removals come FIRST (fix F27): the host setter refuses to empty a host while credentials or a port are present, so decoding the
     host before they were removed produced a result that a second canonicalization changed again *)
  LET ua == IF pr.removePort THEN SetPortO(pr.opts, uin, <<>>) ELSE uin
      ub == IF pr.removeUserInfo THEN SetPassword(SetUsername(ua, <<>>), <<>>) ELSE ua
      u0 == IF pr.removeFragment THEN SetHashO(pr.opts, ub, <<>>) ELSE ub
      doHost == pr.repeated /\ Hostname(u0) # <<>>
      hostStep == IF doHost THEN ParseOvO(DecodeEncode(Hostname(u0), SetHostPE), u0, "hostname", None, pr.opts) ELSE [u |-> u0, asked |-> None]
      u1 == hostStep.u
      u2 == IF pr.repeated /\ SerPath(u1) # <<>> THEN SetPathnameO(pr.opts, u1, DecodeEncode(SerPath(u1), LaxPathSet)) ELSE u1
      doIter == pr.repeated /\ Search(u2) # <<>>
      l3 == IF doIter THEN Some([i \in 1..Len(ListNow(pr.opts, u2, None)) |->
                                 <<DecodeEncodeB(ListNow(pr.opts, u2, None)[i][1], RepQuerySet), DecodeEncodeB(ListNow(pr.opts, u2, None)[i][2], RepQuerySet)>>])
            ELSE None
      u3 == IF doIter THEN WriteBack(pr, u2, Get(l3)) ELSE u2
      u4 == IF ~pr.repeated THEN u3
            ELSE IF Hash(u3) # <<>> THEN SetHashO(pr.opts, u3, DecodeEncode(Fragment(u3), SetHostPE)) ELSE SetHashO(pr.opts, u3, <<>>)
      u8 == IF pr.sort = "keys" THEN WriteBack(pr, u4, SortByName(ListNow(pr.opts, u4, l3)))
            ELSE IF pr.sort = "param" THEN WriteBack(pr, u4, SortByBoth(ListNow(pr.opts, u4, l3))) ELSE u4
  IN [u |-> u8, asked |-> hostStep.asked # None]
HostStates == {"host", "hostname", "fileHost"}
CanonRun(name, in) ==
  LET pr == ProfileOf(name)
      r0 == ParseO(in, None, None, pr.opts)
      r == IF r0.res = "fail" /\ r0.failAt = "noScheme" /\ pr.defaultScheme # <<>>
           THEN ParseO(pr.defaultScheme[1] \o <<58, 47, 47>> \o in, None, None, pr.opts) ELSE r0
  IN IF r.asked # None THEN [fail |-> FALSE, asked |-> TRUE, u |-> EmptyUrl, opts |-> pr.opts]
     ELSE IF r.res = "fail" THEN [fail |-> TRUE, asked |-> FALSE, u |-> EmptyUrl, opts |-> pr.opts]
     ELSE LET c == CanonSteps(pr, r.u) IN [fail |-> FALSE, asked |-> c.asked, u |-> c.u, opts |-> pr.opts]
(* the profile's ParseRef(base, ref): an empty base string is no base; the BASE is parsed by the underlying parser (and it is the base that
   gets the default scheme when it fails for lack of one - never the reference, and never a base that fails in any other way, e.g. a
   relative reference against a base with an opaque path); the reference is resolved against it and the result canonicalized *)
CanonRunB(name, bs, in) ==
  IF bs = <<>> \/ bs[1] = <<>> THEN CanonRun(name, in)
  ELSE LET pr == ProfileOf(name)
           b0 == ParseO(bs[1], None, None, pr.opts)
           b == IF b0.res = "fail" /\ b0.failAt = "noScheme" /\ pr.defaultScheme # <<>>
                THEN ParseO(pr.defaultScheme[1] \o <<58, 47, 47>> \o bs[1], None, None, pr.opts) ELSE b0
       IN IF b.asked # None THEN [fail |-> FALSE, asked |-> TRUE, u |-> EmptyUrl, opts |-> pr.opts]
          ELSE IF b.res = "fail" THEN [fail |-> TRUE, asked |-> FALSE, u |-> EmptyUrl, opts |-> pr.opts]
          ELSE LET r == ParseO(in, Some(b.u), None, pr.opts) IN
               IF r.asked # None THEN [fail |-> FALSE, asked |-> TRUE, u |-> EmptyUrl, opts |-> pr.opts]
               ELSE IF r.res = "fail" THEN [fail |-> TRUE, asked |-> FALSE, u |-> EmptyUrl, opts |-> pr.opts]
               ELSE LET c == CanonSteps(pr, r.u) IN [fail |-> FALSE, asked |-> c.asked, u |-> c.u, opts |-> pr.opts]
====
