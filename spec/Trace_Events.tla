---- MODULE Trace_Events ----
(* T-mode for relational properties: reads composite events recorded from the REAL code (vh events) and
   evaluates the property's relation on the observed values.  Every event is independent; a verdict other
   than "ok" is collected with the index of the event; bin/check turns it into a replay file. *)
EXTENDS Canon, Diagnostics, Json
CONSTANT TraceFile
Trace == ndJsonDeserialize(TraceFile)
VARIABLES l, bad
DocumentedErrors == {"DomainToASCII", "DomainToUnicode", "DomainInvalidCodePoint", "HostInvalidCodePoint", "IPv4EmptyPart", "IPv4TooManyParts", "IPv4NonNumericPart", "IPv4NonDecimalPart", "IPv4OutOfRangePart", "IPv6Unclosed", "IPv6InvalidCompression", "IPv6TooManyPieces", "IPv6MultipleCompression", "IPv6InvalidCodePoint", "IPv6TooFewPieces", "IPv4InIPv6TooManyPieces", "IPv4InIPv6InvalidCodePoint", "IPv4InIPv6OutOfRangePart", "IPv4InIPv6TooFewParts", "InvalidURLUnit", "SpecialSchemeMissingFollowingSolidus", "MissingSchemeNonRelativeURL", "InvalidReverseSolidus", "InvalidCredentials", "HostMissing", "PortMissing", "PortOutOfRange", "PortInvalid", "FileInvalidWindowsDriveLetter", "FileInvalidWindowsDriveLetterHost"}

Crashed(r) == r.fail /\ r.err \in {"nilnil", "panic"}
SameRes(a, b) == a.fail = b.fail /\ (~a.fail => a.g = b.g)
Verdicts(cs) == LET failed == {i \in 1..Len(cs) : ~cs[i][2]} IN
                IF failed = {} THEN <<>> ELSE [i \in 1..Cardinality(failed) |-> cs[CHOOSE k \in failed : Cardinality({j \in failed : j < k}) = i - 1][1]]

(* ---------------- C06: reference-resolution laws on observed values ---------------- *)
StdKeys == {"protocol", "username", "password", "host", "hostname", "port", "pathname"}
CheckLaw(e) ==
  LET u == e.u[1] IN
  Verdicts(<<
    <<"crash", ~\E i \in 1..Len(e.u) : Crashed(e.u[i])>>,
    <<"entry-points-disagree", \A i \in 1..Len(e.u) : SameRes(e.u[i], u)>>,
    <<"self: Href(u) does not resolve to u against some base", u.fail \/ \A i \in 1..Len(e.self) : ~e.self[i].fail /\ e.self[i].g = u.g>>,
    <<"empty: '' against a non-opaque u is not u without fragment",
        u.fail \/ u.g.opaque \/ (~e.empty.fail /\ e.empty.g = [u.g EXCEPT !.href = u.g.hrefnf, !.hash = <<>>, !.fragment = <<>>])>>,
    <<"empty-opaque: '' accepted by an opaque-path base", u.fail \/ ~u.g.opaque \/ e.empty.fail>>,
    <<"hash: '#f' does not change exactly the fragment",
        u.fail \/ (~e.hash.fail /\ e.hash.g = [u.g EXCEPT !.href = u.g.hrefnf \o <<35, 102>>, !.hash = <<35, 102>>, !.fragment = <<102>>])>>,
    <<"query: '?q' does not replace the query, drop the fragment and keep the rest",
        u.fail \/ u.g.opaque \/ (/\ ~e.query.fail /\ e.query.g.search = <<63, 113>> /\ e.query.g.query = <<113>> /\ e.query.g.hash = <<>>
                                  /\ \A k \in StdKeys : e.query.g[k] = u.g[k])>>,
    <<"query-opaque: '?q' accepted by an opaque-path base", u.fail \/ ~u.g.opaque \/ e.query.fail>>,
    <<"scheme: a scheme-less reference changed the scheme", u.fail \/ \A i \in 1..Len(e.rel) : e.rel[i].fail \/ e.rel[i].g.scheme = u.g.scheme>>,
    <<"reading the base's SearchParams first changes the base or the result of a resolution",
        u.fail \/ (/\ SameRes(e.tbase, u) /\ SameRes(e.tempty, e.empty) /\ SameRes(e.thash, e.hash) /\ SameRes(e.tquery, e.query)
                   /\ Len(e.trel) = Len(e.rel) /\ \A i \in 1..Len(e.rel) : SameRes(e.trel[i], e.rel[i]))>>,
    <<"a resolution changed its base value, or the empty reference resolves differently after other references were resolved against the same base value",
        u.fail \/ (SameRes(e.after, u) /\ SameRes(e.empty2, e.empty))>>,
    <<"opaque-base accepted a relative reference other than '#...'",
        u.fail \/ ~u.g.opaque \/ \A i \in 1..Len(e.rel) : e.rel[i].fail \/ (e.relref[i] # <<>> /\ e.relref[i][1] = 35)>>
  >>)

(* ---------------- C15: the four diagnostic configurations of one input ---------------- *)
ErrOk(r) == ~r.fail \/ r.err \in DocumentedErrors
CheckDiag(e) ==
  Verdicts(<<
    <<"crash", ~(Crashed(e.d) \/ Crashed(e.r) \/ Crashed(e.f) \/ Crashed(e.b))>>,
    <<"reporting changes the result", SameRes(e.r, e.d)>>,
    <<"fail-on-VE accepts what default rejects, or returns another URL", e.f.fail \/ (~e.d.fail /\ e.f.g = e.d.g)>>,
    <<"both != fail-on-VE", e.b.fail = e.f.fail /\ (~e.b.fail => e.b.g = e.f.g)>>,
    <<"fail-on-VE accepts although reporting records an entry", e.f.fail \/ (~e.r.fail /\ e.r.ve = <<>>)>>,
    <<"fail-on-VE rejects although reporting records nothing (no base)", e.bs # <<>> \/ ~e.f.fail \/ e.r.fail \/ e.r.ve # <<>>>>,
    <<"error type not from the documented set", ErrOk(e.d) /\ ErrOk(e.r) /\ ErrOk(e.f) /\ ErrOk(e.b)>>,
    <<"an error returned by the default / reporting parser is not marked as a failure", (~e.d.fail \/ e.d.efail) /\ (~e.r.fail \/ e.r.efail)>>,
    <<"error accessors: Url() of a default-mode error is not the trimmed, tab/newline-free input, or Error() does not mention type and url",
        ~e.d.fail \/ (e.eurl = <<Preprocess(e.in, FALSE)>> /\ e.emsgok)>>,
    <<"same input, different error type with and without reporting", ~e.d.fail \/ ~e.r.fail \/ e.d.err = e.r.err>>,
    <<"an entry recorded on a successfully parsed URL is marked fatal", e.r.fail \/ \A i \in 1..Len(e.r.ve) : ~e.r.ve[i].fail>>,
    <<"recorded entry has an undocumented type", e.r.fail \/ \A i \in 1..Len(e.r.ve) : e.r.ve[i].type \in DocumentedErrors>>,
    <<"default / fail-on-VE parser recorded entries although reporting is off", (e.d.fail \/ e.d.ve = <<>>) /\ (e.f.fail \/ e.f.ve = <<>>)>>,
    \* information only (no listed property demands the standard's inventory; the orchestrator counts "note:" tags, they are never a verdict)
    <<"note: the validation-error types recorded by the reporting parser differ from the standard's inventory (Diagnostics!VeOf)",
        LET base == IF e.bs = <<>> THEN None ELSE Some(Parse(e.bs[1], None, None).u)
            inv == IF e.bs # <<>> /\ Parse(e.bs[1], None, None).res # "ok" THEN <<FALSE, <<>>>> ELSE VeOf(e.in, base, DefaultOpts)
        IN \/ ~inv[1]
           \/ (e.r.fail /\ inv[2] # <<>> /\ Last(inv[2]) = e.r.err)        \* a failed parse exposes only the fatal error: it is the last one raised
           \/ (~e.r.fail /\ TypeSet(inv[2]) = {e.r.ve[i].type : i \in 1..Len(e.r.ve)})>>
  >>)

(* ---------------- C14: write sets of read-only calls (spec/ConcProg.tla, strict programs) ---------------- *)
CP == INSTANCE ConcProg WITH LazyInitOnClone <- FALSE
CheckWs(e) == Verdicts(<<
    <<"a read-only call wrote shared state", {e.writes[i] : i \in 1..Len(e.writes)} = CP!WritesOf(e.call)>>
  >>)

(* ---------------- C16: one option configuration vs the default parser ---------------- *)
OtherKeys == {"protocol", "username", "password", "host", "hostname", "port", "pathname", "hash"}
NoBadPct(s) == \A i \in 1..Len(s) : s[i] = 37 => IsPctTriple(s, i)
NoEmptyInnerSegment(path) == ~\E i \in 1..(Len(path) - 1) : path[i] = 47 /\ path[i + 1] = 47
(* the option on the setter path: e.in is the VALUE of setter e.setter on a fixed start URL; the trigger is evaluated on the value *)
CheckOptSetter(e) ==
  Verdicts(<<
    <<"crash", ~(Crashed(e.d) \/ Crashed(e.o))>>,
    <<"neutrality (setter path): the option changed the effect of a setter whose value does not contain its trigger",
        Trigger(e.opt, e.in, <<>>) \/ SameRes(e.o, e.d)>>
  >>)
CheckOptParse(e) ==
  LET base == IF e.bs = <<>> THEN None ELSE Some(Parse(e.bs[1], None, None).u)
      r == Parse(e.in, base, None)                                  \* the specification's default run
      specAgrees == r.asked = None /\ (r.res = "fail") = e.d.fail /\ (r.res = "ok" => Getters(r.u) = e.d.g)
      n == e.opt
  IN Verdicts(<<
    <<"crash", ~(Crashed(e.d) \/ Crashed(e.o))>>,
    <<"a parser / profile built without options differs from the default parser", n \notin {"newparser", "canon_none"} \/ SameRes(e.o, e.d)>>,
    <<"neutrality: the option changed the result of an input that does not contain its trigger",
        n \notin NeutralOptions \/ Trigger(n, e.in, e.bs) \/ SameRes(e.o, e.d)>>,
    <<"lax host parsing changed an input whose host the default parser accepts", n # "lax_host" \/ (e.d.fail /\ e.d.err \in HostErrors) \/ SameRes(e.o, e.d)>>,
    <<"exact: result differs from the specification run with the option record",
        n \notin ExactOptions \/ ~specAgrees \/
          LET ob == IF e.bs = <<>> THEN None ELSE Some(ParseO(e.bs[1], None, None, OptsOf(n)).u)
              x == ParseO(e.in, ob, None, OptsOf(n))
          IN x.asked # None \/ ((x.res = "fail") = e.o.fail /\ (x.res = "ok" => GettersO(OptsOf(n), x.u) = e.o.g))>>,
    <<"remove-*: result is not the default result with the standard's setters applied",
        n \notin SetterOptions \/ ~specAgrees \/ (e.o.fail = e.d.fail /\ (~e.d.fail => e.o.g = Getters(CanonSetters(n, r.u))))>>,
    <<"remove-*: postcondition (no credentials / no port / no fragment) violated",
        n \notin SetterOptions \/ e.o.fail \/
          (/\ (n \in {"remove_userinfo", "canon:remove_userinfo+remove_port+remove_fragment"} => e.o.g.username = <<>> /\ e.o.g.password = <<>>)
           /\ (n \in {"remove_port", "canon:remove_userinfo+remove_port+remove_fragment"} => e.o.g.port = <<>>)
           /\ (n \in {"remove_fragment", "canon:remove_userinfo+remove_port+remove_fragment"} => e.o.g.hash = <<>> /\ e.o.g.href = e.o.g.hrefnf))>>,
    <<"sort-query: parameters are not the stable sort of the default's parameters, or another component changed",
        n \notin {"sort_keys", "sort_param"} \/
          (e.o.fail = e.d.fail /\ (~e.d.fail => /\ e.op = (IF n = "sort_keys" THEN SortByName(e.dp) ELSE SortByBoth(e.dp))
                                                 /\ \A k \in OtherKeys : e.o.g[k] = e.d.g[k]))>>,
    <<"default-scheme: wrong result",
        n # "default_scheme" \/
          (IF e.bs = <<>> /\ e.d.fail /\ e.d.err = "MissingSchemeNonRelativeURL" THEN SameRes(e.o, e.alt) ELSE SameRes(e.o, e.d))>>,
    <<"default-scheme: the specification fails elsewhere than the no-scheme state although the code reports a missing scheme",
        n # "default_scheme" \/ e.bs # <<>> \/ ~e.d.fail \/ e.d.err # "MissingSchemeNonRelativeURL" \/ (r.res = "fail" /\ r.failAt = "noScheme")>>,
    <<"collapse: an empty non-final segment is left in a special URL's path", n # "collapse" \/ e.o.fail \/ ~e.o.g.special \/ NoEmptyInnerSegment(e.o.g.pathname)>>,
    <<"single-percent: a '%' not followed by two hex digits is left in the path", n # "single_pct" \/ e.o.fail \/ NoBadPct(e.o.g.pathname)>>,
    <<"special-schemes: the added scheme is not treated as special / default port not elided",
        n # "special_gopher" \/ e.o.fail \/ e.o.g.scheme # GOPHER \/ (e.o.g.special /\ e.o.g.port # <<55, 48>> /\ e.o.g.pathname # <<>>)>>
  >>)

(* ---------------- C17: canonical output is a fixed point ---------------- *)
(* Known findings are characterised through MODELLED parts only: the list stored in the first output (e.yp, snapshot)
   and the serializer the library uses (UrlApi!SerQImplO, named deviation ImplQueryEscape):
     F03  the stored list is not faithfully serialized because a name/value contains a delimiter the serializer leaves
          unescaped (% followed by two hex digits, & + =)
     F14  under skip-equals (GoogleSafeBrowsing) a pair with empty name AND empty value serializes to nothing *)
ImplEscT(S, t) == Flat([i \in 1..Len(t) |-> IF t[i] = 32 THEN <<43>> ELSE EncCp(S, t[i])])
RECURSIVE SerImplT(_, _, _)
SerImplT(S, skipEq, lst) ==
  IF lst = <<>> THEN <<>>
  ELSE ImplEscT(S, lst[1][1]) \o (IF skipEq /\ lst[1][2] = <<>> THEN <<>> ELSE <<61>>) \o ImplEscT(S, lst[1][2])
       \o (IF Len(lst) > 1 THEN <<38>> \o SerImplT(S, skipEq, Tail(lst)) ELSE <<>>)
IsGsbLike(prof) == prof \in {"GoogleSafeBrowsing"}
Unfaithful(prof, lst) == ParseQ(SerImplT(SetQuery, IsGsbLike(prof), lst)) # lst
HasEmptyPair(lst) == \E i \in 1..Len(lst) : lst[i][1] = <<>> /\ lst[i][2] = <<>>
CheckIdem(e) ==
  Verdicts(<<
    <<"crash", ~(Crashed(e.y) \/ Crashed(e.z))>>,
    <<"exact: the profile's output differs from the specification's canonicalizer pipeline (Canon!CanonRun)",
        e.prof \notin ModelledProfiles \/
          LET c == CanonRunB(e.prof, e.bs, e.in) IN c.asked \/ (c.fail = e.y.fail /\ (c.fail \/ GettersO(c.opts, c.u) = e.y.g))>>,
    <<IF ~e.y.fail /\ IsGsbLike(e.prof) /\ HasEmptyPair(e.yp) THEN "not idempotent [F14: stored list has an empty-name/empty-value pair under skip-equals]"
      ELSE IF ~e.y.fail /\ Unfaithful(e.prof, e.yp) THEN "not idempotent [F03: stored list is not faithfully serialized]"
      ELSE "not idempotent",
      ~e.law \/ e.y.fail \/ (~e.z.fail /\ e.z.g.href = e.y.g.href)>>
  >>)

(* ---------------- C18: equivalent spellings canonicalize identically ---------------- *)
CheckClass(e) ==
  Verdicts(<<
    <<"crash", ~\E i \in 1..Len(e.outs) : Crashed(e.outs[i])>>,
    <<"spellings of one URL canonicalize differently",
        \A i \in 1..Len(e.outs) : e.outs[i].fail = e.outs[1].fail /\ (~e.outs[1].fail => e.outs[i].g.href = e.outs[1].g.href)>>
  >>)

(* ---------------- C02: total API - the specification's action is  result' \in {error} \cup AnyUrl ---------------- *)
CheckRobust(e) == Verdicts(<< <<"a public call panicked, hung or returned (nil, nil)", e.bad = <<>>>> >>)

Check(e) == CASE e.k = "law" -> CheckLaw(e)
              [] e.k = "robust" -> CheckRobust(e)
              [] e.k = "opt" -> IF e.setter = "" THEN CheckOptParse(e) ELSE CheckOptSetter(e)
              [] e.k = "idem" -> CheckIdem(e)
              [] e.k = "class" -> CheckClass(e)
              [] e.k = "ws" -> CheckWs(e)
              [] e.k = "diag" -> CheckDiag(e)
              [] OTHER -> <<"unknown event kind">>

Init == l = 1 /\ bad = <<>>
Next == /\ l <= Len(Trace)
        /\ l' = l + 1
        /\ LET v == Check(Trace[l]) IN bad' = IF v = <<>> THEN bad ELSE Append(bad, [i |-> l, v |-> v])
Done == (l = Len(Trace) + 1) => PrintT(<<"VERDICTS", Len(Trace), ToJson(bad)>>)
AllConsumed == TLCGet("stats").diameter - 1 = Len(Trace)
====
