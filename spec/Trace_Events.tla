---- MODULE Trace_Events ----
(* T-mode for relational properties: reads composite events recorded from the REAL code (vh events) and
   evaluates the property's relation on the observed values.  Every event is independent; a verdict other
   than "ok" is collected with the index of the event; bin/check turns it into a replay file. *)
EXTENDS UrlInvariants, Json
CONSTANT TraceFile
Trace == ndJsonDeserialize(TraceFile)
VARIABLES l, bad
DocumentedErrors == {"DomainToASCII", "DomainToUnicode", "DomainInvalidCodePoint", "HostInvalidCodePoint", "IPv4EmptyPart", "IPv4TooManyParts", "IPv4NonNumericPart", "IPv4NonDecimalPart", "IPv4OutOfRangePart", "IPv6Unclosed", "IPv6InvalidCompression", "IPv6TooManyPieces", "IPv6MultipleCompression", "IPv6InvalidCodePoint", "IPv6TooFewPieces", "IPv4InIPv6TooManyPieces", "IPv4InIPv6InvalidCodePoint", "IPv4InIPv6OutOfRangePart", "IPv4InIPv6TooFewParts", "InvalidURLUnit", "SpecialSchemeMissingFollowingSolidus", "MissingSchemeNonRelativeURL", "InvalidReverseSolidus", "InvalidCredentials", "HostMissing", "PortMissing", "PortOutOfRange", "PortInvalid", "FileInvalidWindowsDriveLetter", "FileInvalidWindowsDriveLetterHost"}

Crashed(r) == r.fail /\ r.err \in {"nilnil", "panic"}
SameRes(a, b) == a.fail = b.fail /\ (~a.fail => a.g = b.g)
Verdicts(cs) == LET failed == {i \in 1..Len(cs) : ~cs[i][2]} IN
                IF failed = {} THEN <<>> ELSE [i \in 1..Cardinality(failed) |-> cs[CHOOSE k \in failed : Cardinality({j \in failed : j < k}) = i - 1][1]]

(* ---------------- C06: reference-resolution laws on observed values ---------------- *)
StdKeys == {"protocol", "username", "password", "host", "hostname", "port", "pathname"}
CheckLaw(e) ==
  LET u == e.u[1] IN
  Verdicts(<<
    <<"crash", ~\E i \in 1..Len(e.u) : Crashed(e.u[i])>>,
    <<"entry-points-disagree", \A i \in 1..Len(e.u) : SameRes(e.u[i], u)>>,
    <<"self: Href(u) does not resolve to u against some base", u.fail \/ \A i \in 1..Len(e.self) : ~e.self[i].fail /\ e.self[i].g = u.g>>,
    <<"empty: '' against a non-opaque u is not u without fragment",
        u.fail \/ u.g.opaque \/ (~e.empty.fail /\ e.empty.g = [u.g EXCEPT !.href = u.g.hrefnf, !.hash = <<>>, !.fragment = <<>>])>>,
    <<"empty-opaque: '' accepted by an opaque-path base", u.fail \/ ~u.g.opaque \/ e.empty.fail>>,
    <<"hash: '#f' does not change exactly the fragment",
        u.fail \/ (~e.hash.fail /\ e.hash.g = [u.g EXCEPT !.href = u.g.hrefnf \o <<35, 102>>, !.hash = <<35, 102>>, !.fragment = <<102>>])>>,
    <<"query: '?q' does not replace the query, drop the fragment and keep the rest",
        u.fail \/ u.g.opaque \/ (/\ ~e.query.fail /\ e.query.g.search = <<63, 113>> /\ e.query.g.query = <<113>> /\ e.query.g.hash = <<>>
                                  /\ \A k \in StdKeys : e.query.g[k] = u.g[k])>>,
    <<"query-opaque: '?q' accepted by an opaque-path base", u.fail \/ ~u.g.opaque \/ e.query.fail>>,
    <<"scheme: a scheme-less reference changed the scheme", u.fail \/ \A i \in 1..Len(e.rel) : e.rel[i].fail \/ e.rel[i].g.scheme = u.g.scheme>>,
    <<"opaque-base accepted a relative reference other than '#...'",
        u.fail \/ ~u.g.opaque \/ \A i \in 1..Len(e.rel) : e.rel[i].fail \/ (e.relref[i] # <<>> /\ e.relref[i][1] = 35)>>
  >>)

(* ---------------- C15: the four diagnostic configurations of one input ---------------- *)
ErrOk(r) == ~r.fail \/ r.err \in DocumentedErrors
CheckDiag(e) ==
  Verdicts(<<
    <<"crash", ~(Crashed(e.d) \/ Crashed(e.r) \/ Crashed(e.f) \/ Crashed(e.b))>>,
    <<"reporting changes the result", SameRes(e.r, e.d)>>,
    <<"fail-on-VE accepts what default rejects, or returns another URL", e.f.fail \/ (~e.d.fail /\ e.f.g = e.d.g)>>,
    <<"both != fail-on-VE", e.b.fail = e.f.fail /\ (~e.b.fail => e.b.g = e.f.g)>>,
    <<"fail-on-VE accepts although reporting records an entry", e.f.fail \/ (~e.r.fail /\ e.r.ve = <<>>)>>,
    <<"fail-on-VE rejects although reporting records nothing (no base)", e.bs # <<>> \/ ~e.f.fail \/ e.r.fail \/ e.r.ve # <<>>>>,
    <<"error type not from the documented set", ErrOk(e.d) /\ ErrOk(e.r) /\ ErrOk(e.f) /\ ErrOk(e.b)>>,
    <<"an error returned by the default / reporting parser is not marked as a failure", (~e.d.fail \/ e.d.efail) /\ (~e.r.fail \/ e.r.efail)>>,
    <<"same input, different error type with and without reporting", ~e.d.fail \/ ~e.r.fail \/ e.d.err = e.r.err>>,
    <<"an entry recorded on a successfully parsed URL is marked fatal", e.r.fail \/ \A i \in 1..Len(e.r.ve) : ~e.r.ve[i].fail>>,
    <<"recorded entry has an undocumented type", e.r.fail \/ \A i \in 1..Len(e.r.ve) : e.r.ve[i].type \in DocumentedErrors>>,
    <<"default / fail-on-VE parser recorded entries although reporting is off", (e.d.fail \/ e.d.ve = <<>>) /\ (e.f.fail \/ e.f.ve = <<>>)>>
  >>)

(* ---------------- C14: write sets of read-only calls (spec/ConcProg.tla, strict programs) ---------------- *)
CP == INSTANCE ConcProg WITH LazyInitOnClone <- FALSE
CheckWs(e) == Verdicts(<<
    <<"a read-only call wrote shared state", {e.writes[i] : i \in 1..Len(e.writes)} = CP!WritesOf(e.call)>>
  >>)

Check(e) == CASE e.k = "law" -> CheckLaw(e)
              [] e.k = "ws" -> CheckWs(e)
              [] e.k = "diag" -> CheckDiag(e)
              [] OTHER -> <<"unknown event kind">>

Init == l = 1 /\ bad = <<>>
Next == /\ l <= Len(Trace)
        /\ l' = l + 1
        /\ LET v == Check(Trace[l]) IN bad' = IF v = <<>> THEN bad ELSE Append(bad, [i |-> l, v |-> v])
Done == (l = Len(Trace) + 1) => PrintT(<<"VERDICTS", Len(Trace), ToJson(bad)>>)
AllConsumed == TLCGet("stats").diameter - 1 = Len(Trace)
====
