---- MODULE MC_Config ----
(* C02's configuration quantifier: TLC enumerates parser configurations constructible from the public options.
   A configuration is a set of option names (harness/cmd/vh/options.go): any subset of the boolean ParserOptions
   (Mode "all": all 2^n; Mode "pairwise": every subset of size <= 2 plus the full set) combined with at most Valued
   valued options (set-valued options, special-scheme maps, encoding override, host functions, canonicalizer options).
   The four predefined profiles and the default parser are added by the driver. *)
EXTENDS Integers, Sequences, FiniteSets, TLC, Json
CONSTANTS BoolOpts, ValuedOpts, Mode, Valued, Exclusive
BoolSets == IF Mode = "all" THEN SUBSET BoolOpts ELSE {S \in SUBSET BoolOpts : Cardinality(S) <= 2} \cup {BoolOpts}
ValuedSets == {V \in SUBSET ValuedOpts : Cardinality(V) <= Valued /\ \A X \in Exclusive : Cardinality(V \cap X) <= 1}
VARIABLE cfg
Init == cfg \in {S \cup V : S \in BoolSets, V \in ValuedSets} \ {{}}
Next == FALSE /\ cfg' = cfg
SetToSeq(S) == LET RECURSIVE f(_) f(T) == IF T = {} THEN <<>> ELSE LET x == CHOOSE y \in T : TRUE IN <<x>> \o f(T \ {x}) IN f(S)
Emit == PrintT(ToJson([t |-> "cfg", names |-> SetToSeq(cfg)]))
====
