---- MODULE ConcProg ----
(* Program order of the shared-memory accesses of each read-only public call (constant level; used by the
   interleaving model Conc.tla and by the trace spec, which accepts exactly WritesOf(call) as a call's write set). *)
EXTENDS Integers, Sequences, FiniteSets, TLC
CONSTANT LazyInitOnClone
Locs == {"B.components", "B.searchParams", "P.opts", "T.tables"}
R(l) == <<"R", l>>
RW(l) == <<"RW", l>>        \* read; write iff the value read is "nil" (lazy initialisation)
Prog(c) ==
  CASE c = "resolve" -> <<R("P.opts"), R("T.tables"), R("B.components")>>
                         \o (IF LazyInitOnClone THEN <<RW("B.searchParams")>> ELSE <<R("B.searchParams")>>)
    [] c = "getter"  -> <<R("B.components")>>
    [] c = "parse"   -> <<R("P.opts"), R("T.tables")>>
    [] c = "canon"   -> <<R("P.opts"), R("T.tables")>>
(* the write set a call may have: the trace spec accepts exactly this *)
WritesOf(c) == {Prog(c)[i][2] : i \in {j \in 1..Len(Prog(c)) : Prog(c)[j][1] = "RW"}}

====
