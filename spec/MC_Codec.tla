---- MODULE MC_Codec ----
(* C10: the percent-encode sets and the codec laws.
   Mode "sets"  : emits the specification's tables; the harness compares ALL 0x110000 code points (and all 256 bytes).
   Mode "derive": a small history machine - a registry of sets, actions Set/Clear deriving a NEW entry from an
                  existing one; CopyOnDerive says existing entries never change; every derivation sequence up to
                  Depth is emitted with the expected registry after the last step.
   Mode "codec" : every string up to MaxLen over Alphabet x every set of CodecSets: the string-level laws are
                  TLC invariants of the specification; expected encodings / decodings are emitted for byte-exact replay. *)
EXTENDS CodePoints, Json, TLC
CONSTANTS Mode, Depth, DeriveBits, Alphabet, MaxLen, CodecSets

SetNames == <<"c0", "fragment", "query", "specialquery", "path", "userinfo">>
InitReg == [i \in 1..6 |-> NamedSets[SetNames[i]]]

VARIABLES reg,    \* derive: sequence of sets (first six are the named ones)
          hist,   \* derive: steps <<src index, op, bits>>
          str,    \* codec: the string
          sidx    \* codec: index into CodecSets
vars == <<reg, hist, str, sidx>>

Strings == UNION {[1..k -> Alphabet] : k \in 0..MaxLen}
Init == /\ reg = InitReg /\ hist = <<>>
        /\ IF Mode = "codec" THEN str \in Strings /\ sidx \in 1..Len(CodecSets) ELSE str = <<>> /\ sidx = 1
Derive(src, op, bits) ==
  /\ reg' = Append(reg, IF op = "set" THEN SetAdd(reg[src], bits) ELSE SetDel(reg[src], bits))
  /\ hist' = Append(hist, [src |-> src, op |-> op, bits |-> bits])
  /\ UNCHANGED <<str, sidx>>
Next == Mode = "derive" /\ Len(hist) < Depth /\ \E src \in 1..Len(reg), op \in {"set", "clear"}, bits \in DeriveBits : Derive(src, op, bits)

(* deriving never alters an existing entry (true of values; the point is the binding: the real objects are fingerprinted) *)
CopyOnDerive == [][\A i \in 1..Len(reg) : reg'[i] = reg[i]]_vars
NamedUntouched == \A i \in 1..6 : reg[i] = InitReg[i]

(* ---- the standard's sets, stated independently as explicit lists (section 1.3 of the standard) ---- *)
StdMembers(name) ==
  LET c0 == (0..31) \cup {127}                         \* plus everything > 0x7E by the general rule
      frag == c0 \cup {32, 34, 60, 62, 96}
      query == c0 \cup {32, 34, 35, 60, 62}
      squery == query \cup {39}
      path == query \cup {63, 96, 123, 125}
      userinfo == path \cup {47, 58, 59, 61, 64, 91, 92, 93, 94, 124}
  IN CASE name = "c0" -> c0 [] name = "fragment" -> frag [] name = "query" -> query
       [] name = "specialquery" -> squery [] name = "path" -> path [] name = "userinfo" -> userinfo
TablesMatchStandard == \A i \in 1..6 : \A c \in 0..127 : InSet(InitReg[i], c) <=> c \in StdMembers(SetNames[i])

(* ---- codec laws on the specification ---- *)
S == CodecSets[sidx]
Enc == EncStr(S, str)
(* positions of Enc that are produced by escapes: every code point of the set is encoded as %XX (upper-case hex of UTF-8) *)
RECURSIVE EncShape(_, _, _)
EncShape(s, i, e) ==   \* e must be exactly: for each cp of s, itself if not in S, else %HH for each UTF-8 byte
  IF i > Len(s) THEN e = <<>>
  ELSE IF InSet(S, s[i]) THEN LET p == PctCp(s[i]) IN StartsWith(e, p) /\ EncShape(s, i + 1, Drop(e, Len(p)))
  ELSE e # <<>> /\ e[1] = s[i] /\ EncShape(s, i + 1, Tail(e))
(* no member of the set is left unencoded: a member can only appear as the '%' introducing an escape *)
NoMemberLeft == \A i \in 1..Len(Enc) : InSet(S, Enc[i]) => (Enc[i] = 37 /\ IsPctTriple(Enc, i))
Idempotent == (37 \notin S.bits) => EncStr(S, Enc) = Enc
DecodeLaw == IF InSet(S, 37) THEN PctDecode(Enc) = Utf8Str(str) ELSE PctDecode(Enc) = PctDecode(str)
CodecLaws == Mode = "codec" => EncShape(str, 1, Enc) /\ NoMemberLeft /\ Idempotent /\ DecodeLaw

(* WithPercentEncodeSinglePercentSign: a '%' that does not start a valid escape is itself encoded (%25); nothing else changes *)
EncSinglePct == Flat([i \in 1..Len(str) |-> IF str[i] = 37 /\ ~IsPctTriple(str, i) THEN PctCp(37) ELSE EncCp(S, str[i])])
SinglePctNeutral == (Mode = "codec" /\ ~\E i \in 1..Len(str) : str[i] = 37 /\ ~IsPctTriple(str, i)) => EncSinglePct = Enc

(* ---- emission ---- *)
SetToSortedSeq(B) == LET RECURSIVE f(_) f(T) == IF T = {} THEN <<>> ELSE LET m == CHOOSE x \in T : \A y \in T : x <= y IN <<m>> \o f(T \ {m}) IN f(B)
SetJson(s) == [below |-> s.below, bits |-> SetToSortedSeq(s.bits)]
Emit ==
  CASE Mode = "sets" -> \A i \in 1..6 : PrintT(ToJson([t |-> "set", name |-> SetNames[i], set |-> SetJson(InitReg[i])]))
    [] Mode = "derive" -> PrintT(ToJson([t |-> "derive", steps |-> [i \in 1..Len(hist) |-> [src |-> hist[i].src, op |-> hist[i].op, bits |-> SetToSortedSeq(hist[i].bits)]],
                                         reg |-> [i \in 1..Len(reg) |-> SetJson(reg[i])]]))
    [] Mode = "codec" -> PrintT(ToJson([t |-> "codec", s |-> str, set |-> SetJson(S), enc |-> Enc, enc1 |-> EncSinglePct, dec |-> PctDecode(str), decenc |-> PctDecode(Enc)]))
====
