---- MODULE BasicParser ----
(* The WHATWG basic URL parser (24 May 2023 snapshot) as a step function on a parser-state record:
   one operator per state of the standard / of url/parser.go, one TLC step per loop iteration.
   Also: the URL record, its serializer and the API getters.

   Parser options are an explicit record `opts` carried in the state; DefaultOpts is the standard.
   Every option is a *named deviation* guarded by its field (see Options.tla). *)
EXTENDS Host, TLC

FTP == <<102, 116, 112>>
FILE == <<102, 105, 108, 101>>
HTTP == <<104, 116, 116, 112>>
HTTPS == <<104, 116, 116, 112, 115>>
WS == <<119, 115>>
WSS == <<119, 115, 115>>
GOPHER == <<103, 111, 112, 104, 101, 114>>
LOCALHOST == <<108, 111, 99, 97, 108, 104, 111, 115, 116>>

(* ---- options ---- *)
DefaultSpecial == (FTP :> Some(21)) @@ (FILE :> None) @@ (HTTP :> Some(80)) @@ (HTTPS :> Some(443))
                  @@ (WS :> Some(80)) @@ (WSS :> Some(443))
DefaultOpts == [special |-> DefaultSpecial,
                sPath |-> SetPath, sQuery |-> SetQuery, sSQuery |-> SetSpecialQuery,
                sFrag |-> SetFragment, sSFrag |-> SetFragment,
                collapse |-> FALSE,        \* WithCollapseConsecutiveSlashes
                singlePct |-> FALSE,       \* WithPercentEncodeSinglePercentSign
                skipDrive |-> FALSE,       \* WithSkipWindowsDriveLetterNormalization
                skipTrail |-> FALSE,       \* WithSkipTrailingSlashNormalization
                preHost |-> "none",        \* WithPreParseHostFunc: "none" | "gsb" (trim dots, collapse dot runs) | "semantic" (same; empty -> 0.0.0.0)
                                           \*   | "trim" (strings.Trim(h, ".")) | "const" (always "const.example", also for the empty host)
                postHost |-> "none",       \* WithPostParseHostFunc: "none" | "const" (always "post.example"); applied to a DOMAIN result only
                lax |-> FALSE,             \* WithLaxHostParsing
                acceptInvalid |-> FALSE,   \* WithAcceptInvalidCodepoints (host state keeps the raw byte of an invalid code point)
                latin1 |-> FALSE]          \* WithEncodingOverride(ISO8859_1)

IsSpecialO(o, sch) == sch \in DOMAIN o.special
DefaultPortO(o, sch) == IF sch \in DOMAIN o.special THEN o.special[sch] ELSE None
IsSpecial(sch) == IsSpecialO(DefaultOpts, sch)
DefaultPort(sch) == DefaultPortO(DefaultOpts, sch)

(* ---- URL record.  host/port/query/frag are options; path is Seq(segment) unless opaque, then opath holds it ---- *)
EmptyUrl == [scheme |-> <<>>, user |-> <<>>, pass |-> <<>>, host |-> None, port |-> None,
             opaque |-> FALSE, path |-> <<>>, opath |-> <<>>, query |-> None, frag |-> None]

IsWinLetter(s) == Len(s) = 2 /\ IsAlpha(s[1]) /\ s[2] \in {58, 124}
IsNormWinLetter(s) == Len(s) = 2 /\ IsAlpha(s[1]) /\ s[2] = 58
StartsWithWinLetter(s) == Len(s) >= 2 /\ IsWinLetter(SubSeq(s, 1, 2)) /\ (Len(s) = 2 \/ s[3] \in {47, 92, 63, 35})
IsSingleDot(b) == LowerSeq(b) \in {<<46>>, <<37, 50, 101>>}
IsDoubleDot(b) == LowerSeq(b) \in {<<46, 46>>, <<46, 37, 50, 101>>, <<37, 50, 101, 46>>, <<37, 50, 101, 37, 50, 101>>}

Shorten(u) ==
  IF u.scheme = FILE /\ Len(u.path) = 1 /\ IsNormWinLetter(u.path[1]) THEN u
  ELSE IF u.path = <<>> THEN u ELSE [u EXCEPT !.path = Front(u.path)]

HasCreds(u) == u.user # <<>> \/ u.pass # <<>>

(* ---- preprocessing ---- *)
RECURSIVE TrimLeft(_)
TrimLeft(s) == IF s # <<>> /\ IsC0OrSpace(Head(s)) THEN TrimLeft(Tail(s)) ELSE s
RECURSIVE TrimRight(_)
TrimRight(s) == IF s # <<>> /\ IsC0OrSpace(Last(s)) THEN TrimRight(Front(s)) ELSE s
NotTabNl(c) == ~IsTabNl(c)
Preprocess(in, hasUrl) == SelectSeq(IF hasUrl THEN in ELSE TrimRight(TrimLeft(in)), NotTabNl)

(* ---- parser state ----
   st    current state (names of url/parser.go without the "State" prefix, lower camel)
   ov    state override ("none" when absent)
   ptr   1-based pointer; ptr = Len(input)+1 is the EOF position
   buf   buffer;  at / br / pw  the three flags
   u     the URL record being built; base: None or Some(record)
   res   "run" | "ok" | "fail";  failAt: the state in which failure was returned
   idna  oracle answer for a non-trivial domain, asked: the domain the host parser asked about
   steps state-machine iterations; work: steps + buffer code points re-scanned (C20 work model) *)
PInitO(in, base, url, ov, idna, opts) ==
  [st |-> IF ov = "none" THEN "schemeStart" ELSE ov, ov |-> ov, ptr |-> 1, buf |-> <<>>,
   at |-> FALSE, br |-> FALSE, pw |-> FALSE, u |-> url, input |-> in, base |-> base,
   res |-> "run", failAt |-> "", idna |-> idna, asked |-> None, opts |-> opts, steps |-> 0, work |-> 0,
   rawin |-> in]          \* the same input before invalid bytes became U+FFFD (same positions); only accept-invalid-code-points looks at it
PInit(in, base, url, ov, idna) == PInitO(in, base, url, ov, idna, DefaultOpts)

Cur(s) == IF s.ptr > Len(s.input) \/ s.ptr < 1 THEN EOF ELSE s.input[s.ptr]
Remaining(s) == Drop(s.input, s.ptr)
FromPtr(s) == SubSeq(s.input, s.ptr, Len(s.input))
Ov(s) == s.ov # "none"
Fail(s) == [s EXCEPT !.res = "fail", !.failAt = s.st]
Ret(s) == [s EXCEPT !.res = "ok"]
Back(s) == [s EXCEPT !.ptr = @ - 1]
Sp(s) == IsSpecialO(s.opts, s.u.scheme)
SpecialBackslash(s, c) == Sp(s) /\ c = 92
B(s) == Get(s.base)
CleanPort(o, u) == IF u.port # None /\ u.port = DefaultPortO(o, u.scheme) THEN [u EXCEPT !.port = None] ELSE u

(* the host functions of the two predefined experimental profiles (canonicalizer/profiles.go) *)
RECURSIVE TrimDotsL(_)
TrimDotsL(h) == IF h # <<>> /\ Head(h) = 46 THEN TrimDotsL(Tail(h)) ELSE h
RECURSIVE TrimDotsR(_)
TrimDotsR(h) == IF h # <<>> /\ Last(h) = 46 THEN TrimDotsR(Front(h)) ELSE h
RECURSIVE SqueezeDots(_)
SqueezeDots(h) == IF Len(h) < 2 THEN h ELSE IF h[1] = 46 /\ h[2] = 46 THEN SqueezeDots(Tail(h)) ELSE <<h[1]>> \o SqueezeDots(Tail(h))
CONSTEXAMPLE == <<99, 111, 110, 115, 116, 46, 101, 120, 97, 109, 112, 108, 101>>     \* "const.example"
POSTEXAMPLE == <<112, 111, 115, 116, 46, 101, 120, 97, 109, 112, 108, 101>>           \* "post.example"
PreHost(o, h) == IF o.preHost = "const" THEN CONSTEXAMPLE
                 ELSE IF o.preHost = "none" \/ h = <<>> THEN h
                 ELSE IF o.preHost = "trim" THEN TrimDotsR(TrimDotsL(h))
                 ELSE LET t == SqueezeDots(TrimDotsR(TrimDotsL(h))) IN
                      IF t = <<>> /\ o.preHost = "semantic" THEN <<48, 46, 48, 46, 48, 46, 48>> ELSE t
(* percent-encoding of one code point under the options: with the Latin-1 override an encoded code point is ONE byte
   (its Latin-1 value, or 0x1A when it has none) instead of its UTF-8 bytes *)
Enc1(o, S, c) == IF ~InSet(S, c) THEN <<c>> ELSE IF o.latin1 THEN PctByte(IF c < 256 THEN c ELSE 26) ELSE PctCp(c)
EncStr1(o, S, s) == Flat([i \in 1..Len(s) |-> Enc1(o, S, s[i])])
(* percent-decoding of bytes under the options: with the override a decoded byte is re-encoded as the UTF-8 of its Latin-1 code point *)
RECURSIVE DecodeO(_, _, _)
DecodeO(o, b, i) == IF i > Len(b) THEN <<>>
                    ELSE IF IsPctTriple(b, i) THEN (LET v == 16 * HexVal(b[i+1]) + HexVal(b[i+2]) IN IF o.latin1 THEN Utf8(v) ELSE <<v>>) \o DecodeO(o, b, i + 3)
                    ELSE <<b[i]>> \o DecodeO(o, b, i + 1)
RunesOf(t) == [i \in 1..Len(t) |-> IF IsRaw(t[i]) THEN 65533 ELSE t[i]]        \* what ranging over the Go string yields
EncBytesHostPE(b) == Flat([i \in 1..Len(b) |-> IF InSet(SetHostPE, b[i]) THEN PctByte(b[i]) ELSE <<b[i]>>])   \* percentEncodeString(input, HostPercentEncodeSet)
EncStrSP(o, S, s) == Flat([i \in 1..Len(s) |-> IF o.singlePct /\ s[i] = 37 /\ ~IsPctTriple(s, i) THEN PctCp(37) ELSE Enc1(o, S, s[i])])
(* parseHost (url/hostparser.go) under every option: host function first (an empty result is the empty host); lax host parsing turns
   three failures into a result: an opaque host with a forbidden code point is kept as is, a domain that is not UTF-8 after decoding is
   the byte-wise escaped input, a forbidden domain code point is escaped; a rejected IDNA mapping yields the decoded domain *)
ParseHostO(o, buf, isOpaque, idna) ==
  LET h == PreHost(o, buf) IN
  IF h = <<>> THEN HostOk(<<>>, None, "empty")
  ELSE IF h[1] = 91 THEN
     IF Last(h) # 93 THEN HostFail(None)
     ELSE LET r == ParseIPv6(SubSeq(h, 2, Len(h) - 1)) IN
          IF r = None THEN HostFail(None) ELSE HostOk(<<91>> \o SerIPv6(Get(r)) \o <<93>>, None, "ipv6")
  ELSE IF isOpaque THEN
     (IF \E i \in 1..Len(h) : IsForbiddenHost(RunesOf(h)[i]) THEN (IF o.lax THEN HostOk(h, None, "lax-opaque") ELSE HostFail(None))
      ELSE HostOk(EncStr1(o, SetC0, RunesOf(h)), None, "opaque"))
  ELSE LET bytes == DecodeO(o, BytesOfT(h), 1)
           dec == Utf8Decode(bytes)
       IN IF dec = None THEN (IF o.lax THEN HostOk(EncBytesHostPE(BytesOfT(h)), None, "lax-bytes") ELSE HostFail(None))
          ELSE LET domain == Get(dec)
                   triv == TrivialDomain(domain)
                   asked == IF triv THEN None ELSE Some(domain)
                   ascii == IF triv THEN Some(LowerSeq(domain)) ELSE idna
               IN IF ascii = None \/ Get(ascii) = <<>> THEN (IF o.lax THEN HostOk(domain, asked, "lax-idna") ELSE HostFail(asked))
                  ELSE LET ad == Get(ascii) IN
                    IF \E i \in 1..Len(ad) : IsForbiddenDomain(ad[i]) THEN (IF o.lax THEN HostOk(EncStrSP(o, SetHostPE, ad), asked, "lax-forbidden") ELSE HostFail(asked))
                    ELSE IF EndsInANumber(ad) THEN
                         (LET v4 == ParseIPv4(ad) IN IF v4 = None THEN HostFail(asked) ELSE HostOk(SerIPv4(Get(v4)), asked, "ipv4"))
                    ELSE HostOk(IF o.postHost = "const" THEN POSTEXAMPLE ELSE ad, asked, "domain")

StSchemeStart(s, c) ==
  IF IsAlpha(c) THEN [s EXCEPT !.buf = Append(@, Lower(c)), !.st = "scheme"]
  ELSE IF ~Ov(s) THEN Back([s EXCEPT !.st = "noScheme"])
  ELSE Fail(s)

StScheme(s, c) ==
  IF IsAlnum(c) \/ c \in {43, 45, 46} THEN [s EXCEPT !.buf = Append(@, Lower(c))]
  ELSE IF c = 58 THEN
    IF Ov(s) /\ (\/ Sp(s) # IsSpecialO(s.opts, s.buf)
                 \/ ((HasCreds(s.u) \/ IsSome(s.u.port)) /\ s.buf = FILE)
                 \/ (s.u.scheme = FILE /\ (s.u.host = Some(<<>>) \/ s.u.host = None)))   \* "empty host or null": null is unreachable under
                                                                                       \* the default table (a file URL always has a host)
    THEN Ret(s)
    ELSE LET u1 == [s.u EXCEPT !.scheme = s.buf] IN
      IF Ov(s) THEN Ret([s EXCEPT !.u = CleanPort(s.opts, u1)])
      ELSE LET s1 == [s EXCEPT !.u = u1, !.buf = <<>>] IN
        IF u1.scheme = FILE THEN [s1 EXCEPT !.st = "file"]
        ELSE IF IsSpecialO(s.opts, u1.scheme) /\ IsSome(s.base) /\ B(s).scheme = u1.scheme THEN [s1 EXCEPT !.st = "specialRelativeOrAuthority"]
        ELSE IF IsSpecialO(s.opts, u1.scheme) THEN [s1 EXCEPT !.st = "specialAuthoritySlashes"]
        ELSE IF StartsWith(Remaining(s), <<47>>) THEN [s1 EXCEPT !.st = "pathOrAuthority", !.ptr = @ + 1]
        ELSE [s1 EXCEPT !.u = [u1 EXCEPT !.opaque = TRUE, !.opath = <<>>], !.st = "opaquePath"]
  ELSE IF ~Ov(s) THEN [s EXCEPT !.buf = <<>>, !.st = "noScheme", !.ptr = 0, !.work = @ + s.ptr]
  ELSE Fail(s)

StNoScheme(s, c) ==
  IF s.base = None \/ (B(s).opaque /\ c # 35) THEN Fail(s)
  ELSE IF B(s).opaque /\ c = 35 THEN
    [s EXCEPT !.u = [@ EXCEPT !.scheme = B(s).scheme, !.opaque = TRUE, !.opath = B(s).opath, !.path = <<>>,
                              !.query = B(s).query, !.frag = Some(<<>>)], !.st = "fragment"]
  ELSE IF B(s).scheme # FILE THEN Back([s EXCEPT !.st = "relative"])
  ELSE Back([s EXCEPT !.st = "file"])

StSpecialRelativeOrAuthority(s, c) ==
  IF c = 47 /\ StartsWith(Remaining(s), <<47>>) THEN [s EXCEPT !.st = "specialAuthorityIgnoreSlashes", !.ptr = @ + 1]
  ELSE Back([s EXCEPT !.st = "relative"])

StPathOrAuthority(s, c) ==
  IF c = 47 THEN [s EXCEPT !.st = "authority"] ELSE Back([s EXCEPT !.st = "path"])

StRelative(s, c) ==
  LET b == B(s)
      s0 == [s EXCEPT !.u.scheme = b.scheme]
  IN IF c = 47 THEN [s0 EXCEPT !.st = "relativeSlash"]
     ELSE IF SpecialBackslash(s0, c) THEN [s0 EXCEPT !.st = "relativeSlash"]
     ELSE LET u1 == [s0.u EXCEPT !.user = b.user, !.pass = b.pass, !.host = b.host, !.port = b.port,
                                 !.path = b.path, !.opaque = b.opaque, !.opath = b.opath, !.query = b.query]
          IN IF c = 63 THEN [s0 EXCEPT !.u = [u1 EXCEPT !.query = Some(<<>>)], !.st = "query"]
             ELSE IF c = 35 THEN [s0 EXCEPT !.u = [u1 EXCEPT !.frag = Some(<<>>)], !.st = "fragment"]
             ELSE IF c # EOF THEN Back([s0 EXCEPT !.u = Shorten([u1 EXCEPT !.query = None]), !.st = "path"])
             ELSE [s0 EXCEPT !.u = u1]

StRelativeSlash(s, c) ==
  IF Sp(s) /\ c \in {47, 92} THEN [s EXCEPT !.st = "specialAuthorityIgnoreSlashes"]
  ELSE IF c = 47 THEN [s EXCEPT !.st = "authority"]
  ELSE LET b == B(s) IN
       Back([s EXCEPT !.u = [@ EXCEPT !.user = b.user, !.pass = b.pass, !.host = b.host, !.port = b.port], !.st = "path"])

StSpecialAuthoritySlashes(s, c) ==
  IF c = 47 /\ StartsWith(Remaining(s), <<47>>) THEN [s EXCEPT !.st = "specialAuthorityIgnoreSlashes", !.ptr = @ + 1]
  ELSE Back([s EXCEPT !.st = "specialAuthorityIgnoreSlashes"])

StSpecialAuthorityIgnoreSlashes(s, c) ==
  IF c # 47 /\ c # 92 THEN Back([s EXCEPT !.st = "authority"]) ELSE s

(* credentials: walk buffer *)
RECURSIVE Creds(_, _, _, _, _, _)
Creds(o, buf, i, pw, user, pass) ==
  IF i > Len(buf) THEN <<pw, user, pass>>
  ELSE IF buf[i] = 58 /\ ~pw THEN Creds(o, buf, i + 1, TRUE, user, pass)
  ELSE IF pw THEN Creds(o, buf, i + 1, pw, user, pass \o Enc1(o, SetUserinfo, buf[i]))
  ELSE Creds(o, buf, i + 1, pw, user \o Enc1(o, SetUserinfo, buf[i]), pass)

StAuthority(s, c) ==
  IF c = 64 THEN
    LET buf1 == IF s.at THEN <<37, 52, 48>> \o s.buf ELSE s.buf
        r == Creds(s.opts, buf1, 1, s.pw, s.u.user, s.u.pass)
    IN [s EXCEPT !.at = TRUE, !.pw = r[1], !.u = [@ EXCEPT !.user = r[2], !.pass = r[3]], !.buf = <<>>,
                 !.work = @ + Len(buf1)]
  ELSE IF c = EOF \/ c \in {47, 63, 35} \/ SpecialBackslash(s, c) THEN
    IF s.at /\ s.buf = <<>> THEN Fail(s)
    ELSE [s EXCEPT !.ptr = @ - (Len(s.buf) + 1), !.buf = <<>>, !.st = "host", !.work = @ + Len(s.buf)]
  ELSE [s EXCEPT !.buf = Append(@, c)]

StHost(s, c) ==
  IF Ov(s) /\ s.u.scheme = FILE THEN Back([s EXCEPT !.st = "fileHost"])
  ELSE IF c = 58 /\ ~s.br THEN
    IF s.buf = <<>> THEN Fail(s)
    ELSE IF s.ov = "hostname" THEN Ret(s)
    ELSE LET h == ParseHostO(s.opts, s.buf, ~Sp(s), s.idna) IN
         IF ~h.ok THEN Fail([s EXCEPT !.asked = h.asked])
         ELSE [s EXCEPT !.u.host = Some(h.host), !.buf = <<>>, !.st = "port", !.asked = h.asked]
  ELSE IF c = EOF \/ c \in {47, 63, 35} \/ SpecialBackslash(s, c) THEN
    LET s0 == Back(s) IN
    IF Sp(s) /\ s.buf = <<>> THEN Fail(s0)
    ELSE IF Ov(s) /\ s.buf = <<>> /\ (HasCreds(s.u) \/ IsSome(s.u.port)) THEN Ret(s0)
    ELSE LET h == ParseHostO(s.opts, s.buf, ~Sp(s), s.idna) IN
         IF ~h.ok THEN Fail([s0 EXCEPT !.asked = h.asked])
         ELSE LET s1 == [s0 EXCEPT !.u.host = Some(h.host), !.buf = <<>>, !.st = "pathStart", !.asked = h.asked]
              IN IF Ov(s) THEN Ret(s1) ELSE s1
  ELSE LET c2 == IF s.opts.acceptInvalid /\ c = 65533          \* the raw byte behind an invalid code point (a genuine U+FFFD loses all but its first byte)
                 THEN (IF IsRaw(s.rawin[s.ptr]) THEN s.rawin[s.ptr] ELSE RawBase + 239) ELSE c
       IN [s EXCEPT !.br = IF c = 91 THEN TRUE ELSE IF c = 93 THEN FALSE ELSE @, !.buf = Append(@, c2)]

RECURSIVE PortVal(_, _, _)
PortVal(b, i, acc) == IF i > Len(b) THEN acc
                      ELSE IF acc > 65535 THEN acc
                      ELSE PortVal(b, i + 1, acc * 10 + (b[i] - 48))

StPort(s, c) ==
  IF IsDigit(c) THEN [s EXCEPT !.buf = Append(@, c)]
  ELSE IF c = EOF \/ c \in {47, 63, 35} \/ SpecialBackslash(s, c) \/ Ov(s) THEN
    LET pv == PortVal(s.buf, 1, 0) IN
    IF s.buf # <<>> /\ pv > 65535 THEN Fail(s)
    ELSE LET s1 == IF s.buf # <<>>
                   THEN [s EXCEPT !.u.port = IF Some(pv) = DefaultPortO(s.opts, s.u.scheme) THEN None ELSE Some(pv), !.buf = <<>>]
                   ELSE s
         IN IF Ov(s) THEN Ret(s1) ELSE Back([s1 EXCEPT !.st = "pathStart"])
  ELSE Fail(s)

StFile(s, c) ==
  LET s0 == [s EXCEPT !.u.scheme = FILE, !.u.host = Some(<<>>)] IN
  IF c \in {47, 92} THEN [s0 EXCEPT !.st = "fileSlash"]
  ELSE IF IsSome(s.base) /\ B(s).scheme = FILE THEN
    LET b == B(s)
        u1 == [s0.u EXCEPT !.host = b.host, !.path = b.path, !.opaque = b.opaque, !.opath = b.opath, !.query = b.query]
    IN IF c = 63 THEN [s0 EXCEPT !.u = [u1 EXCEPT !.query = Some(<<>>)], !.st = "query"]
       ELSE IF c = 35 THEN [s0 EXCEPT !.u = [u1 EXCEPT !.frag = Some(<<>>)], !.st = "fragment"]
       ELSE IF c # EOF THEN
         LET u2 == [u1 EXCEPT !.query = None]
             u3 == IF ~StartsWithWinLetter(FromPtr(s)) THEN Shorten(u2) ELSE [u2 EXCEPT !.path = <<>>]
         IN Back([s0 EXCEPT !.u = u3, !.st = "path"])
       ELSE [s0 EXCEPT !.u = u1]
  ELSE Back([s0 EXCEPT !.st = "path"])

StFileSlash(s, c) ==
  IF c \in {47, 92} THEN [s EXCEPT !.st = "fileHost"]
  ELSE LET s1 == IF IsSome(s.base) /\ B(s).scheme = FILE THEN
                   LET b == B(s)
                       u1 == [s.u EXCEPT !.host = b.host]
                   IN [s EXCEPT !.u = IF ~StartsWithWinLetter(FromPtr(s)) /\ b.path # <<>> /\ IsNormWinLetter(b.path[1])
                                      THEN [u1 EXCEPT !.path = Append(@, b.path[1])] ELSE u1]
                 ELSE s
       IN Back([s1 EXCEPT !.st = "path"])

StFileHost(s, c) ==
  IF c = EOF \/ c \in {47, 92, 63, 35} THEN
    LET s0 == Back(s) IN
    IF ~Ov(s) /\ IsWinLetter(s.buf) THEN [s0 EXCEPT !.st = "path"]
    ELSE IF s.buf = <<>> THEN
      LET s1 == [s0 EXCEPT !.u.host = Some(<<>>)] IN IF Ov(s) THEN Ret(s1) ELSE [s1 EXCEPT !.st = "pathStart"]
    ELSE LET h == ParseHostO(s.opts, s.buf, ~Sp(s), s.idna) IN
      IF ~h.ok THEN Fail([s0 EXCEPT !.asked = h.asked])
      ELSE LET hh == IF h.host = LOCALHOST THEN <<>> ELSE h.host
               s1 == [s0 EXCEPT !.u.host = Some(hh), !.asked = h.asked]
           IN IF Ov(s) THEN Ret(s1) ELSE [s1 EXCEPT !.buf = <<>>, !.st = "pathStart"]
  ELSE [s EXCEPT !.buf = Append(@, c)]

StPathStart(s, c) ==
  IF Sp(s) /\ ~s.opts.skipTrail THEN
    IF c \in {47, 92} THEN [s EXCEPT !.st = "path"] ELSE Back([s EXCEPT !.st = "path"])
  ELSE IF ~Ov(s) /\ c = 63 THEN [s EXCEPT !.u.query = Some(<<>>), !.st = "query"]
  ELSE IF ~Ov(s) /\ c = 35 THEN [s EXCEPT !.u.frag = Some(<<>>), !.st = "fragment"]
  ELSE IF c # EOF THEN (IF c = 47 THEN [s EXCEPT !.st = "path"] ELSE Back([s EXCEPT !.st = "path"]))
  ELSE IF Ov(s) /\ s.u.host = None THEN [s EXCEPT !.u.path = Append(@, <<>>)]
  ELSE s

(* path state.  The three experimental options that live here are named deviations:
   skipDrive  - do not rewrite C| to C:
   collapse   - (as implemented) an ordinary segment replaces a trailing empty segment of a special URL
   singlePct  - a '%' not followed by two hex digits is written %25 *)
PathAddSeg(s, u, seg) ==
  IF s.opts.collapse /\ IsSpecialO(s.opts, u.scheme) /\ u.path # <<>> /\ Last(u.path) = <<>>
  THEN [u EXCEPT !.path = Append(Front(@), seg)]
  ELSE [u EXCEPT !.path = Append(@, seg)]
PathAddEmpty(s, u) ==     \* a trailing '.' stands for an empty segment; when collapsing it must not follow another empty one
  IF s.opts.collapse /\ IsSpecialO(s.opts, u.scheme) /\ u.path # <<>> /\ Last(u.path) = <<>> THEN u
  ELSE [u EXCEPT !.path = Append(@, <<>>)]
InvalidPct(s) == Cur(s) = 37 /\ ~IsPctTriple(s.input, s.ptr)
EncPathCp(s, S, c) == IF s.opts.singlePct /\ InvalidPct(s) THEN Enc1(s.opts, SetAdd(S, {37}), c) ELSE Enc1(s.opts, S, c)

StPath(s, c) ==
  LET slash == c = 47 \/ SpecialBackslash(s, c) IN
  IF c = EOF \/ slash \/ (~Ov(s) /\ c \in {63, 35}) THEN
    LET u1 == IF IsDoubleDot(s.buf) THEN
                 (LET us == Shorten(s.u) IN IF ~slash THEN [us EXCEPT !.path = Append(@, <<>>)] ELSE us)
              ELSE IF IsSingleDot(s.buf) THEN
                 (IF ~slash THEN PathAddEmpty(s, s.u) ELSE s.u)
              ELSE LET b1 == IF s.u.scheme = FILE /\ s.u.path = <<>> /\ IsWinLetter(s.buf) /\ ~s.opts.skipDrive
                             THEN <<s.buf[1], 58>> ELSE s.buf
                   IN PathAddSeg(s, s.u, b1)
        s1 == [s EXCEPT !.u = u1, !.buf = <<>>]
    IN IF c = 63 THEN [s1 EXCEPT !.u.query = Some(<<>>), !.st = "query"]
       ELSE IF c = 35 THEN [s1 EXCEPT !.u.frag = Some(<<>>), !.st = "fragment"]
       ELSE s1
  ELSE [s EXCEPT !.buf = @ \o EncPathCp(s, s.opts.sPath, c)]

StOpaquePath(s, c) ==
  IF c = 63 THEN [s EXCEPT !.u.query = Some(<<>>), !.st = "query"]
  ELSE IF c = 35 THEN [s EXCEPT !.u.frag = Some(<<>>), !.st = "fragment"]
  ELSE IF c # EOF THEN [s EXCEPT !.u.opath = @ \o EncPathCp(s, SetC0, c)]
  ELSE s

StQuery(s, c) ==
  IF (~Ov(s) /\ c = 35) \/ c = EOF THEN
    LET set == IF Sp(s) THEN s.opts.sSQuery ELSE s.opts.sQuery
        s1 == [s EXCEPT !.u.query = Some(Get(@) \o EncStr1(s.opts, set, s.buf)), !.buf = <<>>]
    IN IF c = 35 THEN [s1 EXCEPT !.u.frag = Some(<<>>), !.st = "fragment"] ELSE s1
  ELSE [s EXCEPT !.buf = Append(@, c)]

StFragment(s, c) ==
  IF c # EOF THEN [s EXCEPT !.u.frag = Some(Get(@) \o Enc1(s.opts, IF Sp(s) THEN s.opts.sSFrag ELSE s.opts.sFrag, c))] ELSE s

Dispatch(s, c) ==
  CASE s.st = "schemeStart" -> StSchemeStart(s, c)
    [] s.st = "scheme" -> StScheme(s, c)
    [] s.st = "noScheme" -> StNoScheme(s, c)
    [] s.st = "specialRelativeOrAuthority" -> StSpecialRelativeOrAuthority(s, c)
    [] s.st = "pathOrAuthority" -> StPathOrAuthority(s, c)
    [] s.st = "relative" -> StRelative(s, c)
    [] s.st = "relativeSlash" -> StRelativeSlash(s, c)
    [] s.st = "specialAuthoritySlashes" -> StSpecialAuthoritySlashes(s, c)
    [] s.st = "specialAuthorityIgnoreSlashes" -> StSpecialAuthorityIgnoreSlashes(s, c)
    [] s.st = "authority" -> StAuthority(s, c)
    [] s.st \in {"host", "hostname"} -> StHost(s, c)
    [] s.st = "port" -> StPort(s, c)
    [] s.st = "file" -> StFile(s, c)
    [] s.st = "fileSlash" -> StFileSlash(s, c)
    [] s.st = "fileHost" -> StFileHost(s, c)
    [] s.st = "pathStart" -> StPathStart(s, c)
    [] s.st = "path" -> StPath(s, c)
    [] s.st = "opaquePath" -> StOpaquePath(s, c)
    [] s.st = "query" -> StQuery(s, c)
    [] s.st = "fragment" -> StFragment(s, c)

States == {"schemeStart", "scheme", "noScheme", "specialRelativeOrAuthority", "pathOrAuthority", "relative",
           "relativeSlash", "specialAuthoritySlashes", "specialAuthorityIgnoreSlashes", "authority", "host",
           "hostname", "port", "file", "fileSlash", "fileHost", "pathStart", "path", "opaquePath", "query", "fragment"}

Step(s) ==
  LET s1 == Dispatch(s, Cur(s)) IN
  IF s1.res # "run" THEN [s1 EXCEPT !.steps = @ + 1, !.work = @ + 1]
  ELSE IF s1.ptr > Len(s1.input) THEN [s1 EXCEPT !.res = "ok", !.steps = @ + 1, !.work = @ + 1]
  ELSE [s1 EXCEPT !.ptr = @ + 1, !.steps = @ + 1, !.work = @ + 1]

RECURSIVE Run(_)
Run(s) == IF s.res # "run" THEN s ELSE Run(Step(s))

(* ---- top-level: parse with optional base; input text is ingested (raw bytes -> U+FFFD) first ---- *)
ParseO(in, base, idna, opts) == Run([PInitO(Preprocess(Ingest(in), FALSE), base, EmptyUrl, "none", idna, opts) EXCEPT !.rawin = Preprocess(in, FALSE)])
ParseOvO(in, url, ov, idna, opts) == Run([PInitO(Preprocess(Ingest(in), TRUE), None, url, ov, idna, opts) EXCEPT !.rawin = Preprocess(in, TRUE)])
Parse(in, base, idna) == ParseO(in, base, idna, DefaultOpts)
ParseOv(in, url, ov, idna) == ParseOvO(in, url, ov, idna, DefaultOpts)

(* ---- serializer and getters ---- *)
SerPath(u) == IF u.opaque THEN u.opath ELSE Flat([i \in 1..Len(u.path) |-> <<47>> \o u.path[i]])
Protocol(u) == Append(u.scheme, 58)
Hostname(u) == IF u.host = None THEN <<>> ELSE Get(u.host)
PortStr(u) == IF u.port = None THEN <<>> ELSE DecStr(Get(u.port))
HostGetter(u) == IF u.host = None THEN <<>> ELSE IF u.port = None THEN Get(u.host) ELSE Get(u.host) \o <<58>> \o PortStr(u)
Query(u) == IF u.query = None THEN <<>> ELSE Get(u.query)
Fragment(u) == IF u.frag = None THEN <<>> ELSE Get(u.frag)
Search(u) == IF Query(u) = <<>> THEN <<>> ELSE <<63>> \o Query(u)
Hash(u) == IF Fragment(u) = <<>> THEN <<>> ELSE <<35>> \o Fragment(u)
Href(u, noFrag) ==
  Protocol(u)
  \o (IF u.host # None THEN
        <<47, 47>> \o (IF HasCreds(u) THEN u.user \o (IF u.pass # <<>> THEN <<58>> \o u.pass ELSE <<>>) \o <<64>> ELSE <<>>)
        \o Get(u.host) \o (IF u.port # None THEN <<58>> \o PortStr(u) ELSE <<>>)
      ELSE IF ~u.opaque /\ Len(u.path) > 1 /\ u.path[1] = <<>> THEN <<47, 46>> ELSE <<>>)
  \o SerPath(u)
  \o (IF u.query # None THEN <<63>> \o Get(u.query) ELSE <<>>)
  \o (IF ~noFrag /\ u.frag # None THEN <<35>> \o Get(u.frag) ELSE <<>>)

(* derived accessors of the Go API, *defined* from the primary components (C19) *)
IsV6Host(h) == h # <<>> /\ h[1] = 91 /\ Last(h) = 93
IsDottedDecimal(h) ==
  LET ps == Split(h, 46) IN
  Len(ps) = 4 /\ \A i \in 1..4 : ps[i] # <<>> /\ Len(ps[i]) <= 3 /\ (\A j \in 1..Len(ps[i]) : IsDigit(ps[i][j]))
                              /\ (Len(ps[i]) = 1 \/ ps[i][1] # 48) /\ PortVal(ps[i], 1, 0) <= 255
IsIPv6G(u) == IsV6Host(Hostname(u))
IsIPv4GO(o, u) == IsSpecialO(o, u.scheme) /\ IsDottedDecimal(Hostname(u))
DecodedPortGO(o, u) == IF u.port # None THEN Get(u.port)
                       ELSE IF DefaultPortO(o, u.scheme) # None THEN Get(DefaultPortO(o, u.scheme)) ELSE 0

(* the public projection: what the harness compares (short keys keep the emitted JSON small) *)
GettersO(o, u) ==
  [href |-> Href(u, FALSE), hrefnf |-> Href(u, TRUE), protocol |-> Protocol(u), scheme |-> u.scheme,
   username |-> u.user, password |-> u.pass, host |-> HostGetter(u), hostname |-> Hostname(u), port |-> PortStr(u),
   pathname |-> SerPath(u), search |-> Search(u), query |-> Query(u), hash |-> Hash(u), fragment |-> Fragment(u),
   opaque |-> u.opaque, special |-> IsSpecialO(o, u.scheme), ipv4 |-> IsIPv4GO(o, u), ipv6 |-> IsIPv6G(u),
   dport |-> DecodedPortGO(o, u)]
Getters(u) == GettersO(DefaultOpts, u)
====
