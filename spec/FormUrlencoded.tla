---- MODULE FormUrlencoded ----
(* application/x-www-form-urlencoded parsing and serializing, and the URLSearchParams list operations. *)
EXTENDS Setters
PlusToSpace(s) == [i \in 1..Len(s) |-> IF s[i] = 43 THEN 32 ELSE s[i]]
(* '+' -> space FIRST, then percent-decode, then UTF-8 decode without BOM (lossy) *)
DecodeForm(s) == Lossy(PctDecode(PlusToSpace(s)))
Pair(item) == LET k == IndexOf(item, 61) IN
              IF k = 0 THEN <<DecodeForm(item), <<>>>> ELSE <<DecodeForm(SubSeq(item, 1, k - 1)), DecodeForm(Drop(item, k))>>
NonEmpty(x) == x # <<>>
ParseQ(q) == LET items == SelectSeq(Split(Ingest(q), 38), NonEmpty) IN [i \in 1..Len(items) |-> Pair(items[i])]

(* the same under a parser option record: the library decodes through its own percent-decoder, which under the Latin-1 encoding override
   turns an escaped byte into the UTF-8 of its Latin-1 code point (BasicParser!DecodeO) *)
DecodeFormO(o, s) == Lossy(DecodeO(o, BytesOfT(PlusToSpace(s)), 1))
PairO(o, item) == LET k == IndexOf(item, 61) IN
                  IF k = 0 THEN <<DecodeFormO(o, item), <<>>>> ELSE <<DecodeFormO(o, SubSeq(item, 1, k - 1)), DecodeFormO(o, Drop(item, k))>>
ParseQO(o, q) == IF ~o.latin1 THEN ParseQ(q)
                 ELSE LET items == SelectSeq(Split(Ingest(q), 38), NonEmpty) IN [i \in 1..Len(items) |-> PairO(o, items[i])]

(* the standard's serializer *)
FormKeep(b) == IsAlnum(b) \/ b \in {42, 45, 46, 95}
FormCp(c) == LET bs == Utf8(c) IN Flat([i \in 1..Len(bs) |-> IF bs[i] = 32 THEN <<43>> ELSE IF FormKeep(bs[i]) THEN <<bs[i]>> ELSE PctByte(bs[i])])
FormStr(s) == Flat([i \in 1..Len(s) |-> FormCp(s[i])])
RECURSIVE SerQ(_)
SerQ(l) == IF l = <<>> THEN <<>> ELSE FormStr(l[1][1]) \o <<61>> \o FormStr(l[1][2]) \o (IF Len(l) > 1 THEN <<38>> \o SerQ(Tail(l)) ELSE <<>>)

(* list operations *)
RECURSIVE SeqLess(_, _)
SeqLess(a, b) == IF a = <<>> THEN b # <<>> ELSE IF b = <<>> THEN FALSE
                 ELSE IF a[1] # b[1] THEN a[1] < b[1] ELSE SeqLess(Tail(a), Tail(b))
KBoth(p) == p[1] \o p[2]
RECURSIVE SortByName(_)
SortByName(l) == IF l = <<>> THEN <<>> ELSE LET rest == SortByName(Front(l)) IN
                 \* stable: insert the LAST element after all elements not greater than it
                 LET p == Last(l)
                     k == Cardinality({i \in 1..Len(rest) : ~SeqLess(p[1], rest[i][1])})
                 IN SubSeq(rest, 1, k) \o <<p>> \o Drop(rest, k)
RECURSIVE SortByBoth(_)
SortByBoth(l) == IF l = <<>> THEN <<>> ELSE LET rest == SortByBoth(Front(l)) IN
                 LET p == Last(l)
                     k == Cardinality({i \in 1..Len(rest) : ~SeqLess(KBoth(p), KBoth(rest[i]))})
                 IN SubSeq(rest, 1, k) \o <<p>> \o Drop(rest, k)
LAppend(l, n, v) == Append(l, <<n, v>>)
LDelete(l, n) == LET keep(p) == p[1] # n IN SelectSeq(l, keep)
LHas(l, n) == \E i \in 1..Len(l) : l[i][1] = n
LGet(l, n) == IF LHas(l, n) THEN Some(l[CHOOSE i \in 1..Len(l) : l[i][1] = n /\ \A j \in 1..(i-1) : l[j][1] # n][2]) ELSE None
LGetAll(l, n) == LET is(p) == p[1] = n  m == SelectSeq(l, is) IN [i \in 1..Len(m) |-> m[i][2]]
LSet(l, n, v) == IF ~LHas(l, n) THEN Append(l, <<n, v>>)
                 ELSE LET first == CHOOSE i \in 1..Len(l) : l[i][1] = n /\ \A j \in 1..(i-1) : l[j][1] # n
                          keepAfter(p) == p[1] # n
                      IN SubSeq(l, 1, first - 1) \o << <<n, v>> >> \o SelectSeq(Drop(l, first), keepAfter)
(* Iterate(f) hands every stored pair to f and then writes through; the harness's f appends v to every value *)
LIterAppend(l, v) == [i \in 1..Len(l) |-> <<l[i][1], l[i][2] \o v>>]
LIterFirst(l, v) == [i \in 1..Len(l) |-> IF i = 1 THEN <<l[i][1], l[i][2] \o v>> ELSE l[i]]     \* f changes only the first pair
ListOps == {"append", "delete", "set", "sort", "sortabs", "iterappend", "iterfirst"}
ListOp(l, op, n, v) == CASE op = "append" -> LAppend(l, Ingest(n), Ingest(v)) [] op = "delete" -> LDelete(l, Ingest(n))
                         [] op = "set" -> LSet(l, Ingest(n), Ingest(v)) [] op = "sort" -> SortByName(l) [] op = "sortabs" -> SortByBoth(l)
                         [] op = "iterappend" -> LIterAppend(l, Ingest(v)) [] op = "iterfirst" -> LIterFirst(l, Ingest(v))
====
